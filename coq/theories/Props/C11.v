(* C11 — the Niemeyer geohash codec is a consistent hierarchical tiling.
   Every statement is about the executable model GeohashM (tied to /repo by the regenerated
   tables + the correspondence), for EVERY configuration satisfying the finite consistency
   predicate [cfg_ok] (re-proved for the three regenerated tables on every run), every
   rational coordinate and every string/length (no bound).
   This file holds only statements closed by [exact] and their Print Assumptions. *)
From Coq Require Import QArith.
From GV Require Import Prelude GeohashM GeohashP GeohashP2 GeohashP3 CoordM GeohashCoordP.
Open Scope Z_scope.

(* the three shipped tables are consistent *)
Theorem C11_cfg_ok : cfg_ok cfg16 /\ cfg_ok cfg32 /\ cfg_ok cfg64.
Proof. exact (conj cfg16_ok (conj cfg32_ok cfg64_ok)). Qed.
Print Assumptions C11_cfg_ok.

(* encoding yields a string of the requested length over the alphabet *)
Theorem C11_encode_len_alphabet : forall c, cfg_ok c -> forall p n,
  length (encode c p n) = n /\ forall ch, In ch (encode c p n) -> In ch (charset c).
Proof. exact encode_len_alphabet. Qed.
Print Assumptions C11_encode_len_alphabet.

(* ... whose decoded (closed) cell [x-ex, x+ex] x [y-ey, y+ey] contains the coordinate *)
Theorem C11_decode_encode_contains : forall c, cfg_ok c -> forall p n,
  in_range c p -> exists r, decode c (encode c p n) = Ok r /\ in_cell p r.
Proof. exact decode_encode_contains. Qed.
Print Assumptions C11_decode_encode_contains.

(* the encoding at a shorter length is a prefix of the encoding at a longer one
   (holds for any table) *)
Theorem C11_encode_prefix : forall c p n m, (n <= m)%nat ->
  firstn n (encode c p m) = encode c p n.
Proof. exact encode_prefix. Qed.
Print Assumptions C11_encode_prefix.

(* re-encoding the centre of a decodable string's cell returns the string *)
Theorem C11_reencode_centre : forall c, cfg_ok c -> forall s x y ex ey,
  decode c s = Ok (x, y, ex, ey) -> encode c (x, y) (length s) = s.
Proof. exact reencode_centre. Qed.
Print Assumptions C11_reencode_centre.

(* stronger: the encoder is constant on the half-open part (west and south edge excluded) of
   every cell -- this is what the strict [>] at midpoints means *)
Theorem C11_reencode_halfopen : forall c, cfg_ok c -> forall s r p,
  decode c s = Ok r -> hin_cell p r -> encode c p (length s) = s.
Proof. exact reencode_halfopen. Qed.
Print Assumptions C11_reencode_halfopen.

(* the sub-hashes of a cell: base-many, distinct, the parent plus one alphabet character *)
Theorem C11_children_count : forall c, cfg_ok c -> forall s,
  length (subhashes c s) = Nat.pow 2 (length (bits c)) /\ NoDup (subhashes c s).
Proof. exact children_count. Qed.
Print Assumptions C11_children_count.

(* ... each decodes to a cell inside the parent's cell *)
Theorem C11_children_inside : forall c, cfg_ok c -> forall s r k,
  decode c s = Ok r -> In k (subhashes c s) -> exists r', decode c k = Ok r' /\ sub_cell r' r.
Proof. exact children_inside. Qed.
Print Assumptions C11_children_inside.

(* ... their cells cover the parent's cell *)
Theorem C11_children_cover : forall c, cfg_ok c -> forall s r p,
  decode c s = Ok r -> in_cell p r ->
  exists k r', In k (subhashes c s) /\ decode c k = Ok r' /\ in_cell p r'.
Proof. exact children_cover. Qed.
Print Assumptions C11_children_cover.

(* ... and have pairwise disjoint interiors *)
Theorem C11_children_disjoint : forall c, cfg_ok c -> forall s r k1 k2 r1 r2 p,
  decode c s = Ok r -> In k1 (subhashes c s) -> In k2 (subhashes c s) ->
  decode c k1 = Ok r1 -> decode c k2 = Ok r2 -> oin_cell p r1 -> oin_cell p r2 -> k1 = k2.
Proof. exact children_disjoint. Qed.
Print Assumptions C11_children_disjoint.

(* a character outside the alphabet anywhere in the string is rejected with ValueError;
   conversely a string over the alphabet always decodes *)
Theorem C11_decode_rejects : forall c, cfg_ok c -> forall s,
  (exists ch, In ch s /\ ~ In ch (charset c)) -> decode c s = Err ValueError.
Proof. exact decode_rejects. Qed.
Print Assumptions C11_decode_rejects.

Theorem C11_decode_accepts : forall c, cfg_ok c -> forall s,
  valid c s -> exists r, decode c s = Ok r /\ cell_res (cell_st c s) r.
Proof. exact decode_valid. Qed.
Print Assumptions C11_decode_accepts.

(* ... and their areas add up to the parent's area *)
Theorem C11_children_area : forall c, cfg_ok c -> forall s r,
  decode c s = Ok r ->
  exists rs, map (decode c) (subhashes c s) = map Ok rs /\ (qsum (map cell_area rs) == cell_area r)%Q.
Proof. exact children_area. Qed.
Print Assumptions C11_children_area.

(* niemeyer_to_geobox: PARTIAL -- only for cells inside the coordinate range whose east edge is
   west of longitude 180: the box has exactly the cell's corners (nw, se) and contains every
   coordinate of the closed cell.  The full clause (every in-range cell) is false: D12 below. *)
Theorem C11_cell_box_contains_partial : forall c, cfg_ok c -> forall s x y ex ey,
  decode c s = Ok (x, y, ex, ey) ->
  (-180 <= x - ex -> x + ex < 180 -> -90 <= y - ey -> y + ey <= 90 ->
   cell_box c s = Ok ((x - ex, y + ey), (x + ex, y - ey)) /\
   forall p, in_cell p (x, y, ex, ey) ->
             box_contains ((x - ex, y + ey), (x + ex, y - ey)) p = true)%Q.
Proof. exact cell_box_contains. Qed.
Print Assumptions C11_cell_box_contains_partial.

(* D12 (known finding): an in-range cell with east edge 180 whose box has se longitude -180 and
   does not contain the cell's centre *)
Theorem C11_cell_box_east_refuted :
  exists s x y ex ey bx,
    decode cfg32 s = Ok (x, y, ex, ey) /\
    (x + ex == 180 /\ -180 <= x - ex /\ -90 <= y - ey /\ y + ey <= 90)%Q /\
    cell_box cfg32 s = Ok bx /\ (fst (snd bx) == -180)%Q /\ box_contains bx (x, y) = false.
Proof.
  destruct cell_box_east_refuted as (s & x & y & ex & ey & bx & A & B & C & D & E & F & G & H).
  exists s, x, y, ex, ey, bx. tauto.
Qed.
Print Assumptions C11_cell_box_east_refuted.

(* ---- link with C08: the Coordinate constructor as this model uses it for the corners of a cell box IS the
   constructor model of C08 (CoordM.norm), for every raw pair within +-1000 degrees (the corners are within
   |lon| <= 360, |lat| <= 180) - so the theorems of C08 (range, same point of the sphere, idempotence) hold of them ---- *)
Theorem C11_box_corner_is_C08_coordinate : forall lon lat,
  (-1000 <= lon -> lon <= 1000 -> -1000 <= lat -> lat <= 1000 ->
   norm lon lat = Ok (coordinate lon lat))%Q.
Proof. exact geohash_coordinate_is_norm_1000. Qed.
Print Assumptions C11_box_corner_is_C08_coordinate.

(* ---- non-vacuity: the hypotheses are met by concrete, non-trivial values ---- *)
(* (-5.6, 42.6) at length 5 in base 32 is "ezs42"; its cell is decoded and re-encoded *)
Example C11_nonvacuous_encode :
  in_range cfg32 (-28 # 5, 213 # 5)%Q /\
  encode cfg32 (-28 # 5, 213 # 5)%Q 5 = [101; 122; 115; 52; 50] /\
  decode cfg32 [101; 122; 115; 52; 50] = Ok (-11475 # 2048, 87255 # 2048, 45 # 2048, 45 # 2048)%Q /\
  hin_cell (-28 # 5, 213 # 5)%Q (-11475 # 2048, 87255 # 2048, 45 # 2048, 45 # 2048)%Q.
Proof.
  split; [unfold in_range; cbn; unfold Qle; cbn; lia|].
  split; [vm_compute; reflexivity|]. split; [vm_compute; reflexivity|].
  unfold hin_cell; cbn; unfold Qle, Qlt; cbn; lia.
Qed.
(* a coordinate exactly on a midpoint goes to the lower/western cell (strict >): (0, 0) is in
   "7" (base 32), whose cell is [-45, 0] x [-45, 0]; an invalid character is really rejected;
   a base-64 cell really has 64 children; an in-range cell west of 180 really has a box *)
Example C11_nonvacuous_edges :
  encode cfg32 (0, 0)%Q 1 = [55] /\ decode cfg32 [55] = Ok (-45 # 2, -45 # 2, 45 # 2, 45 # 2)%Q /\
  decode cfg32 [101; 97] = Err ValueError /\ ~ In 97 (charset cfg32) /\
  length (subhashes cfg64 [48; 95]) = 64%nat /\
  (exists bx, cell_box cfg16 [57; 98] = Ok bx /\ box_contains bx (315 # 4, -225 # 4)%Q = true).
Proof.
  split; [vm_compute; reflexivity|]. split; [vm_compute; reflexivity|].
  split; [vm_compute; reflexivity|]. split; [cbn; lia|].
  split; [vm_compute; reflexivity|]. eexists. split; vm_compute; reflexivity.
Qed.
