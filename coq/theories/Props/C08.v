(* C08 — coordinates are stored in canonical form denoting the same point.
   Only statements closed by [exact] and their Print Assumptions.
   Part 1: exact rational model of Coordinate.__init__/__eq__/__hash__ (no axioms).
   Part 2 (C08R.v would be the natural place, kept here so the property has one file):
   the unit vector over the reals — see the second half. *)
From Coq Require Import QArith.
From GV Require Import Prelude CoordM CoordP.
Open Scope Q_scope.

(* the loops terminate within the budget for every rational input: the constructor never fails *)
Theorem C08_norm_total : forall lon lat, exists p, norm lon lat = Ok p.
Proof. exact norm_total. Qed.
Print Assumptions C08_norm_total.

Theorem C08_mk_total : forall lon lat z m bounded, exists c, mk lon lat z m bounded = Ok c.
Proof. exact mk_total. Qed.
Print Assumptions C08_mk_total.

(* stored longitude in [-180,180), latitude in [-90,90] *)
Theorem C08_norm_range : forall lon lat a b, norm lon lat = Ok (a, b) ->
  (-180 <= a /\ a < 180) /\ (-90 <= b /\ b <= 90).
Proof. exact norm_range. Qed.
Print Assumptions C08_norm_range.

(* the stored pair is reachable from the raw pair by full turns in longitude and
   reflections over the poles (same_pt is the least such equivalence, CoordP.v) *)
Theorem C08_norm_same_pt : forall lon lat p, norm lon lat = Ok p -> same_pt (lon, lat) p.
Proof. exact norm_same_pt. Qed.
Print Assumptions C08_norm_same_pt.

(* normalising again changes nothing; canonical input is stored as given *)
Theorem C08_norm_idem : forall lon lat a b, norm lon lat = Ok (a, b) -> norm a b = Ok (a, b).
Proof. exact norm_idem. Qed.
Print Assumptions C08_norm_idem.

Theorem C08_norm_fix : forall a b, -180 <= a -> a < 180 -> -90 <= b -> b <= 90 ->
  norm a b = Ok (a, b).
Proof. exact norm_fix. Qed.
Print Assumptions C08_norm_fix.

(* == implies equal hash keys (after D9); == is equality of (lon, lat, z) whatever M is;
   equal hash keys imply == (the key holds nothing else) *)
Theorem C08_eq_hkey : forall a b, ceqb a b = true -> hkey a = hkey b.
Proof. exact eq_hkey. Qed.
Print Assumptions C08_eq_hkey.

Theorem C08_eqb_spec : forall a b,
  ceqb a b = true <-> (clon a == clon b /\ clat a == clat b /\ oq_eq (cz a) (cz b)).
Proof. exact ceqb_spec. Qed.
Print Assumptions C08_eqb_spec.

Theorem C08_hkey_eq : forall a b, hkey a = hkey b -> ceqb a b = true.
Proof. exact hkey_eq_ceqb. Qed.
Print Assumptions C08_hkey_eq.

(* regression statement for D9: with M in the key, == did not imply equal keys *)
Theorem C08_eq_hkey_preD9_refuted : exists a b, ceqb a b = true /\ hkey_preD9 a <> hkey_preD9 b.
Proof. exact eq_hkey_preD9_refuted. Qed.
Print Assumptions C08_eq_hkey_preD9_refuted.

(* Z (and M) are stored as given, bounded or not *)
Theorem C08_z_survives : forall lon lat z m bounded c,
  mk lon lat z m bounded = Ok c -> cz c = z /\ cm c = m.
Proof. exact z_survives. Qed.
Print Assumptions C08_z_survives.

Theorem C08_mk_bounded_spec : forall lon lat z m c, mk lon lat z m true = Ok c ->
  norm lon lat = Ok (clon c, clat c) /\ cz c = z /\ cm c = m.
Proof. exact mk_bounded_spec. Qed.
Print Assumptions C08_mk_bounded_spec.

(* non-vacuity: a raw input over the north pole and past the antimeridian, the 180 -> -180
   step, and two coordinates differing only in M *)
Example C08_nonvacuous :
  norm 1000 1000 = Ok (-80, -80) /\ norm 180 90 = Ok (-180, 90) /\
  norm (-541 # 2) (-271) = Ok (179 # 2, 89) /\
  ceqb (mkc 1 2 (Some 3) (Some 5)) (mkc 1 2 (Some 3) None) = true /\
  ceqb (mkc 1 2 (Some 3) None) (mkc 1 2 None None) = false.
Proof. vm_compute. repeat split. Qed.
