(* C08 — coordinates are stored in canonical form denoting the same point.
   Only statements closed by [exact] and their Print Assumptions.
   Part 1: exact rational model of Coordinate.__init__/__eq__/__hash__ (no axioms).
   Part 2: the unit vector over the reals (Coq's sin/cos/asin/atan; the standard library's
   axioms of the reals appear in Print Assumptions). *)
From Coq Require Import QArith Qreals Reals.
From GV Require Import Prelude CoordM CoordP CoordP2 CoordPR.
Open Scope Q_scope.

(* the loops terminate within the budget for every rational input: the constructor never fails *)
Theorem C08_norm_total : forall lon lat, exists p, norm lon lat = Ok p.
Proof. exact norm_total. Qed.
Print Assumptions C08_norm_total.

Theorem C08_mk_total : forall lon lat z m bounded, exists c, mk lon lat z m bounded = Ok c.
Proof. exact mk_total. Qed.
Print Assumptions C08_mk_total.

(* the stored value is the loops' value, whatever sufficient iteration budgets are used *)
Theorem C08_norm_fuel_irrelevant : forall lon lat f1 f2 lon1 lat1 lon2,
  pole_loop f1 (lon, lat) = Ok (lon1, lat1) -> wrap_loop f2 lon1 = Ok lon2 ->
  norm lon lat = Ok (canon180 lon2, lat1).
Proof. exact norm_fuel_irrelevant. Qed.
Print Assumptions C08_norm_fuel_irrelevant.

(* stored longitude in [-180,180), latitude in [-90,90] *)
Theorem C08_norm_range : forall lon lat a b, norm lon lat = Ok (a, b) ->
  (-180 <= a /\ a < 180) /\ (-90 <= b /\ b <= 90).
Proof. exact norm_range. Qed.
Print Assumptions C08_norm_range.

(* the stored pair is reachable from the raw pair by full turns in longitude and
   reflections over the poles (same_pt is the least such equivalence, CoordP.v) *)
Theorem C08_norm_same_pt : forall lon lat p, norm lon lat = Ok p -> same_pt (lon, lat) p.
Proof. exact norm_same_pt. Qed.
Print Assumptions C08_norm_same_pt.

(* what same_pt relates, concretely: (l', f') is (l + 360 j, f + 360 m) or
   (l + 180 + 360 j, 180 (2m+1) - f) for integers m, j *)
Theorem C08_same_pt_iff_orbit : forall p q, same_pt p q <-> orbit p q.
Proof. exact same_pt_iff_orbit. Qed.
Print Assumptions C08_same_pt_iff_orbit.

(* the canonical form is unique away from the poles: any raw pair denoting the same point as a
   canonical pair (a, b), |b| < 90, is stored as exactly (a, b) *)
Theorem C08_norm_unique : forall lon lat a b,
  -180 <= a -> a < 180 -> -90 < b -> b < 90 -> same_pt (lon, lat) (a, b) ->
  exists a' b', norm lon lat = Ok (a', b') /\ a' == a /\ b' == b.
Proof. exact norm_unique. Qed.
Print Assumptions C08_norm_unique.

Theorem C08_same_pt_nontrivial : ~ same_pt (0, 0) (1, 0).
Proof. exact same_pt_nontrivial. Qed.
Print Assumptions C08_same_pt_nontrivial.

(* normalising again changes nothing; canonical input is stored as given *)
Theorem C08_norm_idem : forall lon lat a b, norm lon lat = Ok (a, b) -> norm a b = Ok (a, b).
Proof. exact norm_idem. Qed.
Print Assumptions C08_norm_idem.

Theorem C08_norm_fix : forall a b, -180 <= a -> a < 180 -> -90 <= b -> b <= 90 ->
  norm a b = Ok (a, b).
Proof. exact norm_fix. Qed.
Print Assumptions C08_norm_fix.

(* == implies equal hash keys (after D9); == is equality of (lon, lat, z) whatever M is;
   equal hash keys imply == (the key holds nothing else) *)
Theorem C08_eq_hkey : forall a b, ceqb a b = true -> hkey a = hkey b.
Proof. exact eq_hkey. Qed.
Print Assumptions C08_eq_hkey.

Theorem C08_eqb_spec : forall a b,
  ceqb a b = true <-> (clon a == clon b /\ clat a == clat b /\ oq_eq (cz a) (cz b)).
Proof. exact ceqb_spec. Qed.
Print Assumptions C08_eqb_spec.

Theorem C08_hkey_eq : forall a b, hkey a = hkey b -> ceqb a b = true.
Proof. exact hkey_eq_ceqb. Qed.
Print Assumptions C08_hkey_eq.

(* regression statement for D9: with M in the key, == did not imply equal keys *)
Theorem C08_eq_hkey_preD9_refuted : exists a b, ceqb a b = true /\ hkey_preD9 a <> hkey_preD9 b.
Proof. exact eq_hkey_preD9_refuted. Qed.
Print Assumptions C08_eq_hkey_preD9_refuted.

(* Z (and M) are stored as given, bounded or not *)
Theorem C08_z_survives : forall lon lat z m bounded c,
  mk lon lat z m bounded = Ok c -> cz c = z /\ cm c = m.
Proof. exact z_survives. Qed.
Print Assumptions C08_z_survives.

Theorem C08_mk_bounded_spec : forall lon lat z m c, mk lon lat z m true = Ok c ->
  norm lon lat = Ok (clon c, clat c) /\ cz c = z /\ cm c = m.
Proof. exact mk_bounded_spec. Qed.
Print Assumptions C08_mk_bounded_spec.

(* ---------------------------------------------------------------- part 2: over the reals *)
(* pairs related by full turns / pole reflections have the same unit vector (Coordinate.xyz) *)
Theorem C08_same_pt_xyz : forall p q, same_pt p q -> xyz p = xyz q.
Proof. exact same_pt_xyz. Qed.
Print Assumptions C08_same_pt_xyz.

(* hence the stored pair denotes the same point of the sphere as the raw input *)
Theorem C08_norm_same_xyz : forall lon lat p, norm lon lat = Ok p -> xyz p = xyz (lon, lat).
Proof. exact norm_same_xyz. Qed.
Print Assumptions C08_norm_same_xyz.

(* _from_xyz inverts xyz for every stored pair away from the poles: the values handed to the
   constructor are inside the closed ranges (neither loop runs) and its 180 -> -180 step gives
   back the stored pair *)
Theorem C08_from_xyz_xyz : forall lon lat : R,
  (-180 <= lon -> lon < 180 -> -90 < lat -> lat < 90 ->
   let r := from_xyz_raw (xyzR lon lat) in
   (-180 <= fst r <= 180 /\ -90 <= snd r <= 90) /\ (canon180R (fst r), snd r) = (lon, lat))%R.
Proof. exact from_xyz_xyz. Qed.
Print Assumptions C08_from_xyz_xyz.

(* at the poles the longitude is not recoverable, but the point does not depend on it *)
Theorem C08_xyz_pole : forall lon lon' : R,
  xyzR lon 90 = xyzR lon' 90 /\ xyzR lon (-90) = xyzR lon' (-90).
Proof. exact xyz_pole. Qed.
Print Assumptions C08_xyz_pole.

(* atan2 of a positive multiple of (sin t, cos t) is t on (-PI, PI] *)
Theorem C08_atan2_polar : forall r t : R,
  (0 < r -> - PI < t -> t <= PI -> atan2 (r * sin t) (r * cos t) = t)%R.
Proof. exact atan2_polar. Qed.
Print Assumptions C08_atan2_polar.

(* non-vacuity: a raw input over the north pole and past the antimeridian, the 180 -> -180
   step, and two coordinates differing only in M *)
Example C08_nonvacuous :
  norm 1000 1000 = Ok (-80, -80) /\ norm 180 90 = Ok (-180, 90) /\
  norm (-541 # 2) (-271) = Ok (179 # 2, 89) /\
  ceqb (mkc 1 2 (Some 3) (Some 5)) (mkc 1 2 (Some 3) None) = true /\
  ceqb (mkc 1 2 (Some 3) None) (mkc 1 2 None None) = false.
Proof. vm_compute. repeat split. Qed.

(* the hypotheses of the real-number theorems are met: a stored pair away from the poles, and a
   raw pair related to it by a reflection over the north pole *)
Example C08_nonvacuous_R :
  (-180 <= 10 /\ 10 < 180 /\ -90 < 20 /\ 20 < 90)%R /\
  same_pt (190, 160) (10, 20).
Proof.
  split; [repeat split; Lra.lra|].
  eapply sp_trans; [|apply sp_sym, (sp_north 10 20)]. apply sp_eq; cbn; ring.
Qed.
