(* C09, fourth file: the last sentence of the property for WEDGES -
     "For circles, ellipses, rings and wedges of up to 10 km radius centred within 75 degrees of the
      equator the bounds match the true extents of the curve to within 1% of the radius."
   as real-number theorems about the wedge branch of GeoRing.bounds (angle_max - angle_min < 360):
   min / max of longitude and latitude over bounding_coords() = CurveM.ring_pts (the k+1 samples of the
   outer arc, the k+1 samples of the inner arc, the first point again), Model/BoundsWedgeM.wedge_bounds.

   The "true extents" are the least upper / greatest lower bounds (is_lub / is_glb) of latitude and
   longitude over (a) the two arcs { dest_rad centre t r : rad amin <= t <= rad amax, r = outer / inner }
   and (b) the whole outline = arcs + the two radial arms { dest_rad centre (rad amin | rad amax) d :
   inner <= d <= outer }.  Errors are in METRES as in C09c / harness/c09.py: Rearth * (latitude difference
   in radians), Rearth * cos (centre latitude) * (longitude difference in radians); both one-sided: the
   computed bound never lies outside the true extent (0 <= ...) and falls short of it by at most
   outer_radius / 100.  Longitudes are the un-wrapped values inverse_haversine computes before the
   Coordinate constructor normalises them.
   Hypotheses: |centre latitude| <= 75, 0 <= inner <= outer <= 10000 m, 0 < amax - amin < 360,
   k >= 1 segments with spacing (amax - amin) / k <= 10 degrees (the default k = max(ceil(span/10), 10)
   meets this: C09_wedge_default_k).
   The `_rounded` theorems are about what the code returns: every sample rounded to 7 decimals by
   inverse_haversine_radians (dest_rad_rounded; each bound moves by at most 5.6 mm).
   Not covered here: the longitude wrap at +-180 by the Coordinate constructor, float evaluation.

   Axioms (Print Assumptions, every theorem below): the standard real-number axioms only -
   ClassicalDedekindReals.sig_not_dec, ClassicalDedekindReals.sig_forall_dec,
   FunctionalExtensionality.functional_extensionality_dep, Classical_Prop.classic. *)
From GV Require Import Prelude SphereM CurveM BoundsCurveM BoundsCurveP4 BoundsCurveP6 BoundsWedgeM BoundsCurveP7 BoundsCurveP8 BoundsCurveP9 BoundsCurveP10.
From Coq Require Import Reals.
Open Scope R_scope.

(* ---- bounding_coords() of a wedge is CurveM.ring_pts's wedge branch; its points are exactly the samples ---- *)
Theorem C09_wedge_points : forall s k p,
  r_amax s - r_amin s < 360 ->
  ring_is_full s = false /\
  (In p (ring_pts s k) <->
   exists i, (i <= k)%nat /\ (p = ring_outer_pt s k i \/ p = ring_inner_pt s k i)).
Proof. exact (fun s k p H => conj (wedge_not_full s H) (in_wedge_pts s k p (wedge_not_full s H))). Qed.
Print Assumptions C09_wedge_points.

(* ---- the default number of segments gives a spacing of at most 10 degrees ---- *)
Theorem C09_wedge_default_k : forall s,
  (10 <= ring_default_k s)%nat /\ (r_amax s - r_amin s) / INR (ring_default_k s) <= 10.
Proof. exact ring_default_k_ok. Qed.
Print Assumptions C09_wedge_default_k.

(* ---- the four numbers are values taken ON the arcs: the bounds never overshoot the curve ---- *)
Theorem C09_wedge_bounds_attained : forall s k,
  0 < r_amax s - r_amin s < 360 -> (1 <= k)%nat ->
  let b := wedge_bounds s k in
  wedge_arc_lats s (rad (rb_maxlat b)) /\ wedge_arc_lats s (rad (rb_minlat b)) /\
  wedge_arc_lons s (rad (rb_maxlon b)) /\ wedge_arc_lons s (rad (rb_minlon b)).
Proof. exact bounds_attained. Qed.
Print Assumptions C09_wedge_bounds_attained.

(* ---- every bearing of an arc is matched by a sample to within 1 % of the radius (latitude / longitude) ---- *)
Theorem C09_wedge_arc_lat_sampled : forall s k r t,
  Rabs (lat (r_center s)) <= 75 -> (1 <= k)%nat -> 0 < r_amax s - r_amin s ->
  (r_amax s - r_amin s) / INR k <= 10 -> 0 <= r <= 10000 -> on_arc s t ->
  (exists i, (i <= k)%nat /\
     curve_lat (r_center s) r t - r / Rearth / 100 <= curve_lat (r_center s) r (ring_angle s k i)) /\
  (exists i, (i <= k)%nat /\
     curve_lat (r_center s) r (ring_angle s k i) <= curve_lat (r_center s) r t + r / Rearth / 100).
Proof.
  exact (fun s k r t Hl Hk Hs Hst Hr Ht =>
    conj (arc_lat_sampled_max s k Hl Hk Hs Hst r t Hr Ht) (arc_lat_sampled_min s k Hl Hk Hs Hst r t Hr Ht)).
Qed.
Print Assumptions C09_wedge_arc_lat_sampled.

Theorem C09_wedge_arc_lon_sampled : forall s k r t,
  Rabs (lat (r_center s)) <= 75 -> (1 <= k)%nat -> 0 < r_amax s - r_amin s ->
  (r_amax s - r_amin s) / INR k <= 10 -> 0 <= r <= 10000 -> on_arc s t ->
  (exists i, (i <= k)%nat /\
     cos (rad (lat (r_center s))) *
       (curve_lon (r_center s) r t - curve_lon (r_center s) r (ring_angle s k i)) <= r / Rearth / 100) /\
  (exists i, (i <= k)%nat /\
     cos (rad (lat (r_center s))) *
       (curve_lon (r_center s) r (ring_angle s k i) - curve_lon (r_center s) r t) <= r / Rearth / 100).
Proof.
  exact (fun s k r t Hl Hk Hs Hst Hr Ht =>
    conj (arc_lon_sampled_max s k Hl Hk Hs Hst r t Hr Ht) (arc_lon_sampled_min s k Hl Hk Hs Hst r t Hr Ht)).
Qed.
Print Assumptions C09_wedge_arc_lon_sampled.

(* ---- the clause for the two arcs: N, S, E, W are the suprema / infima of latitude / longitude over the arcs ---- *)
Theorem C09_wedge_bounds_match_arc_extents : forall s k,
  Rabs (lat (r_center s)) <= 75 -> 0 <= r_inner s <= r_outer s -> r_outer s <= 10000 ->
  0 < r_amax s - r_amin s < 360 -> (1 <= k)%nat -> (r_amax s - r_amin s) / INR k <= 10 ->
  forall N S E W,
  is_lub (wedge_arc_lats s) N -> is_glb (wedge_arc_lats s) S ->
  is_lub (wedge_arc_lons s) E -> is_glb (wedge_arc_lons s) W ->
  let b := wedge_bounds s k in
  0 <= Rearth * (N - rad (rb_maxlat b)) <= r_outer s / 100 /\
  0 <= Rearth * (rad (rb_minlat b) - S) <= r_outer s / 100 /\
  0 <= Rearth * cos (rad (lat (r_center s))) * (E - rad (rb_maxlon b)) <= r_outer s / 100 /\
  0 <= Rearth * cos (rad (lat (r_center s))) * (rad (rb_minlon b) - W) <= r_outer s / 100.
Proof. exact wedge_bounds_match_arc_extents. Qed.
Print Assumptions C09_wedge_bounds_match_arc_extents.

(* ---- the clause for the WHOLE outline (arcs and radial arms) ---- *)
Theorem C09_wedge_bounds_match_outline_extents : forall s k,
  Rabs (lat (r_center s)) <= 75 -> 0 <= r_inner s <= r_outer s -> r_outer s <= 10000 ->
  0 < r_amax s - r_amin s < 360 -> (1 <= k)%nat -> (r_amax s - r_amin s) / INR k <= 10 ->
  forall N S E W,
  is_lub (wedge_outline_lats s) N -> is_glb (wedge_outline_lats s) S ->
  is_lub (wedge_outline_lons s) E -> is_glb (wedge_outline_lons s) W ->
  let b := wedge_bounds s k in
  0 <= Rearth * (N - rad (rb_maxlat b)) <= r_outer s / 100 /\
  0 <= Rearth * (rad (rb_minlat b) - S) <= r_outer s / 100 /\
  0 <= Rearth * cos (rad (lat (r_center s))) * (E - rad (rb_maxlon b)) <= r_outer s / 100 /\
  0 <= Rearth * cos (rad (lat (r_center s))) * (rad (rb_minlon b) - W) <= r_outer s / 100.
Proof. exact wedge_bounds_match_outline_extents. Qed.
Print Assumptions C09_wedge_bounds_match_outline_extents.

(* ---- ... with the code's default k = max(ceil((angle_max - angle_min) / 10), 10) ---- *)
Theorem C09_wedge_bounds_default_match_outline_extents : forall s N S E W,
  Rabs (lat (r_center s)) <= 75 -> 0 <= r_inner s <= r_outer s -> r_outer s <= 10000 ->
  0 < r_amax s - r_amin s < 360 ->
  is_lub (wedge_outline_lats s) N -> is_glb (wedge_outline_lats s) S ->
  is_lub (wedge_outline_lons s) E -> is_glb (wedge_outline_lons s) W ->
  let b := wedge_bounds_default s in
  0 <= Rearth * (N - rad (rb_maxlat b)) <= r_outer s / 100 /\
  0 <= Rearth * (rad (rb_minlat b) - S) <= r_outer s / 100 /\
  0 <= Rearth * cos (rad (lat (r_center s))) * (E - rad (rb_maxlon b)) <= r_outer s / 100 /\
  0 <= Rearth * cos (rad (lat (r_center s))) * (rad (rb_minlon b) - W) <= r_outer s / 100.
Proof. exact wedge_bounds_default_match_outline_extents. Qed.
Print Assumptions C09_wedge_bounds_default_match_outline_extents.

Theorem C09_wedge_bounds_default_match_arc_extents : forall s N S E W,
  Rabs (lat (r_center s)) <= 75 -> 0 <= r_inner s <= r_outer s -> r_outer s <= 10000 ->
  0 < r_amax s - r_amin s < 360 ->
  is_lub (wedge_arc_lats s) N -> is_glb (wedge_arc_lats s) S ->
  is_lub (wedge_arc_lons s) E -> is_glb (wedge_arc_lons s) W ->
  let b := wedge_bounds_default s in
  0 <= Rearth * (N - rad (rb_maxlat b)) <= r_outer s / 100 /\
  0 <= Rearth * (rad (rb_minlat b) - S) <= r_outer s / 100 /\
  0 <= Rearth * cos (rad (lat (r_center s))) * (E - rad (rb_maxlon b)) <= r_outer s / 100 /\
  0 <= Rearth * cos (rad (lat (r_center s))) * (rad (rb_minlon b) - W) <= r_outer s / 100.
Proof. exact wedge_bounds_default_match_arc_extents. Qed.
Print Assumptions C09_wedge_bounds_default_match_arc_extents.

(* ---- which branch of GeoRing.bounds (unrounded) is taken ---- *)
Theorem C09_ring_bounds_unrounded_branch : forall s,
  (360 <= r_amax s - r_amin s -> ring_bounds_unrounded s = circle_bounds (r_center s) (r_outer s)) /\
  (r_amax s - r_amin s < 360 -> ring_bounds_unrounded s = wedge_bounds_default s).
Proof. exact ring_bounds_unrounded_spec. Qed.
Print Assumptions C09_ring_bounds_unrounded_branch.

(* ---- the same for what the code RETURNS: every sample rounded to 7 decimals (dest_rad_rounded); the rounding moves
   each bound by at most 5.6 mm either way ---- *)
Theorem C09_wedge_bounds_rounding : forall s k,
  ring_is_full s = false ->
  let b := wedge_bounds s k in let br := wedge_bounds_rounded s k in
  Rabs (rad (rb_minlon br) - rad (rb_minlon b)) <= rad round_step /\
  Rabs (rad (rb_minlat br) - rad (rb_minlat b)) <= rad round_step /\
  Rabs (rad (rb_maxlon br) - rad (rb_maxlon b)) <= rad round_step /\
  Rabs (rad (rb_maxlat br) - rad (rb_maxlat b)) <= rad round_step.
Proof. exact wedge_bounds_rounding. Qed.
Print Assumptions C09_wedge_bounds_rounding.

Theorem C09_wedge_bounds_rounded_match_outline_extents : forall s k,
  Rabs (lat (r_center s)) <= 75 -> 0 <= r_inner s <= r_outer s -> r_outer s <= 10000 ->
  0 < r_amax s - r_amin s < 360 -> (1 <= k)%nat -> (r_amax s - r_amin s) / INR k <= 10 ->
  forall N S E W,
  is_lub (wedge_outline_lats s) N -> is_glb (wedge_outline_lats s) S ->
  is_lub (wedge_outline_lons s) E -> is_glb (wedge_outline_lons s) W ->
  let b := wedge_bounds_rounded s k in
  - (56 / 10000) <= Rearth * (N - rad (rb_maxlat b)) <= r_outer s / 100 + 56 / 10000 /\
  - (56 / 10000) <= Rearth * (rad (rb_minlat b) - S) <= r_outer s / 100 + 56 / 10000 /\
  - (56 / 10000) <= Rearth * cos (rad (lat (r_center s))) * (E - rad (rb_maxlon b)) <= r_outer s / 100 + 56 / 10000 /\
  - (56 / 10000) <= Rearth * cos (rad (lat (r_center s))) * (rad (rb_minlon b) - W) <= r_outer s / 100 + 56 / 10000.
Proof. exact wedge_bounds_rounded_match_outline_extents. Qed.
Print Assumptions C09_wedge_bounds_rounded_match_outline_extents.

(* GeoRing.bounds as returned (both branches: ring_bounds_rounded), on its wedge branch with the default k *)
Theorem C09_ring_bounds_rounded_wedge_match_outline_extents : forall s N S E W,
  Rabs (lat (r_center s)) <= 75 -> 0 <= r_inner s <= r_outer s -> r_outer s <= 10000 ->
  0 < r_amax s - r_amin s < 360 ->
  is_lub (wedge_outline_lats s) N -> is_glb (wedge_outline_lats s) S ->
  is_lub (wedge_outline_lons s) E -> is_glb (wedge_outline_lons s) W ->
  let b := ring_bounds_rounded s in
  - (56 / 10000) <= Rearth * (N - rad (rb_maxlat b)) <= r_outer s / 100 + 56 / 10000 /\
  - (56 / 10000) <= Rearth * (rad (rb_minlat b) - S) <= r_outer s / 100 + 56 / 10000 /\
  - (56 / 10000) <= Rearth * cos (rad (lat (r_center s))) * (E - rad (rb_maxlon b)) <= r_outer s / 100 + 56 / 10000 /\
  - (56 / 10000) <= Rearth * cos (rad (lat (r_center s))) * (rad (rb_minlon b) - W) <= r_outer s / 100 + 56 / 10000.
Proof. exact ring_bounds_rounded_wedge_match_outline_extents. Qed.
Print Assumptions C09_ring_bounds_rounded_wedge_match_outline_extents.

(* ---- the extents exist (completeness of R) ---- *)
Theorem C09_wedge_extents_exist : forall s k,
  Rabs (lat (r_center s)) <= 75 -> 0 <= r_inner s <= r_outer s -> r_outer s <= 10000 ->
  0 < r_amax s - r_amin s < 360 -> (1 <= k)%nat -> (r_amax s - r_amin s) / INR k <= 10 ->
  (exists N S E W, is_lub (wedge_arc_lats s) N /\ is_glb (wedge_arc_lats s) S /\
                   is_lub (wedge_arc_lons s) E /\ is_glb (wedge_arc_lons s) W) /\
  (exists N S E W, is_lub (wedge_outline_lats s) N /\ is_glb (wedge_outline_lats s) S /\
                   is_lub (wedge_outline_lons s) E /\ is_glb (wedge_outline_lons s) W).
Proof. exact wedge_extents_exist. Qed.
Print Assumptions C09_wedge_extents_exist.

(* ---- the hypotheses are satisfiable: centre (10, 60), radii 2000 / 5000 m, bearings 30 .. 130 degrees, default k = 10 ---- *)
Example C09d_nonvacuous :
  let s := mkring (10, 60) 2000 5000 30 130 [] in
  Rabs (lat (r_center s)) <= 75 /\ 0 <= r_inner s <= r_outer s /\ r_outer s <= 10000 /\
  0 < r_amax s - r_amin s < 360 /\ ring_default_k s = 10%nat /\
  (exists N S E W, is_lub (wedge_outline_lats s) N /\ is_glb (wedge_outline_lats s) S /\
                   is_lub (wedge_outline_lons s) E /\ is_glb (wedge_outline_lons s) W).
Proof. exact nonvacuous_wedge. Qed.
