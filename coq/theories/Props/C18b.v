(* C18b — algebra of the collection filters: consequences of "every filter is the list filter of the members, re-wrapped
   in the same class" (C18_filter_is_list_filter) for well-formed collections (any FeatureCollection; a Track with all
   members timed and in start order).  [p], [q] are ANY per-shape predicates (the delegated ones included).
   Only statements closed by [exact] and their Print Assumptions. *)
From Coq Require Import QArith Permutation.
From GV Require Import Prelude CollM CollP CollP2 FilterM FilterP FilterP2.
Open Scope Z_scope.

(* filtering by p and then by q = filtering once by the conjunction; in particular the order of two filters is irrelevant
   and a filter applied twice changes nothing *)
Theorem C18_filter_compose : forall p q c, wf_coll c ->
  bind_coll (filter_with p c) (filter_with q) = filter_with (fun x => p x && q x) c.
Proof. exact filter_compose. Qed.
Print Assumptions C18_filter_compose.

Theorem C18_filter_commute : forall p q c, wf_coll c ->
  bind_coll (filter_with p c) (filter_with q) = bind_coll (filter_with q c) (filter_with p).
Proof. exact filter_commute. Qed.
Print Assumptions C18_filter_commute.

Theorem C18_filter_idem : forall p c, wf_coll c ->
  bind_coll (filter_with p c) (filter_with p) = filter_with p c.
Proof. exact filter_idem. Qed.
Print Assumptions C18_filter_idem.

Theorem C18_filter_true_id : forall c, wf_coll c -> filter_with (fun _ => true) c = Ok c.
Proof. exact filter_true_id. Qed.
Print Assumptions C18_filter_true_id.

Theorem C18_filter_false_empty : forall c, wf_coll c ->
  filter_with (fun _ => false) c = Ok (mkcoll (ckind c) []).
Proof. exact filter_false_empty. Qed.
Print Assumptions C18_filter_false_empty.

(* a stronger predicate selects an in-order sub-sequence of what a weaker one selects
   (e.g. filter_contains vs filter_by_intersection whenever containment implies intersection member-wise) *)
Theorem C18_filter_mono : forall p q c o1 o2, wf_coll c ->
  (forall x, In x (members c) -> p x = true -> q x = true) ->
  filter_with p c = Ok o1 -> filter_with q c = Ok o2 -> sublist (members o1) (members o2).
Proof. exact filter_mono. Qed.
Print Assumptions C18_filter_mono.

(* a filter and its complement split the collection: nothing lost, nothing duplicated *)
Theorem C18_filter_partition : forall p c o1 o2, wf_coll c ->
  filter_with p c = Ok o1 -> filter_with (fun x => negb (p x)) c = Ok o2 ->
  Permutation (members o1 ++ members o2) (members c) /\
  (length (members o1) + length (members o2) = length (members c))%nat /\
  (forall x, In x (members o1) -> In x (members o2) -> False).
Proof. exact filter_partition. Qed.
Print Assumptions C18_filter_partition.

Theorem C18_filter_length : forall p c out, wf_coll c -> filter_with p c = Ok out ->
  (length (members out) <= length (members c))%nat.
Proof. exact filter_length. Qed.
Print Assumptions C18_filter_length.

(* only the predicate's answers on the members matter *)
Theorem C18_filter_ext : forall p q c, wf_coll c -> (forall x, In x (members c) -> p x = q x) ->
  filter_with p c = filter_with q c.
Proof. exact filter_ext_coll. Qed.
Print Assumptions C18_filter_ext.

(* non-vacuity: a Track with three timed members in start order; two filters in either order keep the same member *)
Definition exb_b : box := (inject_Z 0, inject_Z 0, inject_Z 1, inject_Z 1).
Definition exb_tr : coll :=
  mkcoll TR [mkshape 0 (Some (0, 1)) exb_b; mkshape 1 (Some (2, 2)) exb_b; mkshape 2 (Some (2, 9)) exb_b].
Example C18b_nonvacuous :
  wf_coll exb_tr /\
  option_map (map sid) (match bind_coll (filter_with (fun x => 0 <? sid x) exb_tr) (filter_with (fun x => sid x <? 2)) with
                        | Ok c => Some (members c) | _ => None end) = Some [1] /\
  option_map (map sid) (match bind_coll (filter_with (fun x => sid x <? 2) exb_tr) (filter_with (fun x => 0 <? sid x)) with
                        | Ok c => Some (members c) | _ => None end) = Some [1].
Proof.
  split; [split; [reflexivity|repeat constructor; unfold le_key; cbn; lia]|]. vm_compute. split; reflexivity.
Qed.
