(* C09, second file: the real-number clauses.  (1) the GeoBox circle clause refuted with the REAL haversine
   (finding D10); (2) the circumscribing circles of circles, ellipses and full rings contain every
   generated boundary point, for every k (corollaries of C03's on-curve theorems).
   Kept apart from C09.v because it depends on the real-number development of C07
   (Reals / Coquelicot / Interval and their axioms). *)
From GV Require Import Prelude SphereM BoundsSphereP CurveM BoundsCurveP.
From Coq Require Import Reals.
Open Scope R_scope.

Theorem C09_box_circle_refuted :
  hdist d10_nw d10_centroid + 500 < hdist d10_se d10_centroid /\
  hdist d10_nw d10_centroid + 500 < hdist d10_sw d10_centroid.
Proof. exact box_circle_refuted_haversine. Qed.
Print Assumptions C09_box_circle_refuted.

(* ---- curved shapes: "the circumscribing circle contains every boundary vertex" (as real-number statements about
   the formulas the code contains; the 1e-6 of the property is the allowance for the float evaluation) ---- *)

(* GeoCircle.circumscribing_circle returns the circle itself *)
Theorem C09_circle_cc_contains_boundary : forall s k i,
  -90 <= lat (c_center s) <= 90 -> 0 <= c_radius s <= PI * Rearth ->
  (forall h, In h (c_holes s) -> h (circle_pt s k i) = false) ->
  circle_contains s (circle_pt s k i) = true.
Proof. exact circle_cc_contains_boundary. Qed.
Print Assumptions C09_circle_cc_contains_boundary.

(* GeoEllipse.circumscribing_circle = GeoCircle(center, semi_major) *)
Theorem C09_ellipse_cc_contains_boundary : forall s k i,
  -90 < lat (e_center s) < 90 ->
  0 < e_minor s -> e_minor s <= e_major s -> e_major s < PI * Rearth ->
  -90 < lat (ellipse_pt s k i) < 90 ->
  circle_contains (ellipse_cc s) (ellipse_pt s k i) = true.
Proof. exact ellipse_cc_contains_boundary. Qed.
Print Assumptions C09_ellipse_cc_contains_boundary.

(* ... and the radius is attained on the major axis: no smaller circle about the centre encloses the curve *)
Theorem C09_ellipse_cc_radius_attained : forall s,
  0 < e_minor s -> e_minor s <= e_major s -> radius_at s 0 = c_radius (ellipse_cc s).
Proof. exact ellipse_cc_radius_attained. Qed.
Print Assumptions C09_ellipse_cc_radius_attained.

(* GeoRing.circumscribing_circle (full ring) = GeoCircle(center, outer_radius) *)
Theorem C09_ring_cc_contains_boundary : forall s k i,
  -90 <= lat (r_center s) <= 90 -> 0 <= r_inner s <= r_outer s -> r_outer s <= PI * Rearth ->
  circle_contains (ring_cc s) (ring_outer_pt s k i) = true /\
  circle_contains (ring_cc s) (ring_inner_pt s k i) = true /\
  hdist (r_center s) (ring_outer_pt s k i) = c_radius (ring_cc s).
Proof. exact ring_cc_contains_boundary. Qed.
Print Assumptions C09_ring_cc_contains_boundary.
