(* C09, second file: the GeoBox circle clause refuted with the REAL haversine (finding D10).
   Kept apart from C09.v because it depends on the real-number development of C07
   (Reals / Coquelicot / Interval and their axioms). *)
From GV Require Import Prelude SphereM BoundsSphereP.
From Coq Require Import Reals.
Open Scope R_scope.

Theorem C09_box_circle_refuted :
  hdist d10_nw d10_centroid + 500 < hdist d10_se d10_centroid /\
  hdist d10_nw d10_centroid + 500 < hdist d10_sw d10_centroid.
Proof. exact box_circle_refuted_haversine. Qed.
Print Assumptions C09_box_circle_refuted.
