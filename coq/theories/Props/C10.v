(* C10 - the convex hull is the exact hull of the input coordinates.
   This file holds only statements closed by [exact] and their Print Assumptions.
   [hull] is the model of _geometry.convex_hull (Model/HullM.v), [hull_of_members] the model of
   the public entry points; points are (lon, lat) over Z, [cross o a b > 0] is a strict left
   (counter-clockwise) turn o -> a -> b, [lt2] is the lexicographic order on (lon, lat).
   "Consecutive" vertices are given by decomposition: the list is l1 ++ a :: b :: l2. *)
From Coq Require Import Sorted Permutation.
From GV Require Import Prelude HullM HullP HullP2 HullP3 HullP4 HullP5 HullP6.
Open Scope Z_scope.

(* ---- vertices are input coordinates -------------------------------------------------------- *)
Theorem C10_hull_subset : forall l v, In v (hull l) -> In v l.
Proof. exact hull_subset. Qed.
Print Assumptions C10_hull_subset.

(* ---- order and multiplicity of the input are irrelevant ------------------------------------ *)
(* the sort-and-deduplicate step yields THE strictly increasing list with the same members *)
Theorem C10_dedup_sort_spec : forall l s,
  StronglySorted lt2 s -> (forall x, In x s <-> In x l) -> dedup_sort l = s.
Proof. exact dedup_sort_spec. Qed.
Print Assumptions C10_dedup_sort_spec.

Theorem C10_hull_perm : forall l l', Permutation l l' -> hull l = hull l'.
Proof. exact hull_perm. Qed.
Print Assumptions C10_hull_perm.

(* the hull is a function of the SET of inputs *)
Theorem C10_hull_same_set : forall l l', (forall x, In x l <-> In x l') -> hull l = hull l'.
Proof. exact hull_same_set. Qed.
Print Assumptions C10_hull_same_set.

Theorem C10_hull_multiplicity : forall l, hull (l ++ l) = hull l.
Proof. exact hull_multiplicity. Qed.
Print Assumptions C10_hull_multiplicity.

(* ---- degenerate inputs, exactly ------------------------------------------------------------ *)
Theorem C10_hull_nil : hull [] = [].
Proof. exact hull_nil. Qed.
Print Assumptions C10_hull_nil.

(* one distinct point, however often repeated *)
Theorem C10_hull_one_point : forall l x, In x l -> (forall p, In p l -> p = x) -> hull l = [x].
Proof. exact hull_one_point. Qed.
Print Assumptions C10_hull_one_point.

(* two distinct points, however often repeated: out and back *)
Theorem C10_hull_two_points : forall l a b, In a l -> In b l -> lt2 a b ->
  (forall p, In p l -> p = a \/ p = b) -> hull l = [a; b; a].
Proof. exact hull_two_points. Qed.
Print Assumptions C10_hull_two_points.

(* all inputs on one line (at least two distinct): the two extreme inputs, out and back *)
Theorem C10_hull_collinear : forall l a b, In a l -> In b l -> a <> b ->
  (forall p q r, In p l -> In q l -> In r l -> cross p q r = 0) ->
  exists lo hi, In lo l /\ In hi l /\ lt2 lo hi /\
                (forall p, In p l -> le2 lo p /\ le2 p hi) /\ hull l = [lo; hi; lo].
Proof. exact hull_collinear. Qed.
Print Assumptions C10_hull_collinear.

(* and only then: a three-element answer means the inputs are collinear *)
Theorem C10_hull_three_collinear : forall l a b c, hull l = [a; b; c] ->
  forall p q r, In p l -> In q l -> In r l -> cross p q r = 0.
Proof. exact hull_three_collinear. Qed.
Print Assumptions C10_hull_three_collinear.

(* ---- closed ring ----------------------------------------------------------------------------- *)
(* with two distinct inputs the answer is v :: mid ++ [v], and v is the lexicographically
   smallest input (so the ring is pinned, not only up to rotation) *)
Theorem C10_hull_closed : forall l a b, In a l -> In b l -> a <> b ->
  exists v mid, hull l = v :: mid ++ [v] /\ mid <> [] /\ In v l /\ (forall p, In p l -> le2 v p).
Proof. exact hull_closed. Qed.
Print Assumptions C10_hull_closed.

(* ---- no repeated vertex ---------------------------------------------------------------------- *)
Theorem C10_hull_nodup : forall l, NoDup (removelast (hull l)).
Proof. exact hull_nodup. Qed.
Print Assumptions C10_hull_nodup.

(* ---- counter-clockwise, no collinear vertex -------------------------------------------------- *)
(* unless all inputs are collinear, every three consecutive vertices of the closed ring -
   continued by its second vertex, so that the turn at the closing vertex is included - make a
   strict left turn *)
Theorem C10_hull_strict_left : forall l,
  (exists p q r, In p l /\ In q l /\ In r l /\ cross p q r <> 0) ->
  forall l1 a b c l2, hull l ++ [nth 1 (hull l) (0, 0)] = l1 ++ a :: b :: c :: l2 ->
  cross a b c > 0.
Proof. exact hull_strict_left. Qed.
Print Assumptions C10_hull_strict_left.

(* ---- contains every input (the stretch goal of DESIGN 5/C10, proved in full) ------------------ *)
(* every input coordinate is on or to the left of every edge of the ring *)
Theorem C10_hull_contains : forall l p, In p l ->
  forall l1 a b l2, hull l = l1 ++ a :: b :: l2 -> cross a b p >= 0.
Proof. exact hull_contains. Qed.
Print Assumptions C10_hull_contains.

(* ---- exactness: the ring is THE convex hull ---------------------------------------------------- *)
(* For inputs that are not all collinear, [hull l] has all the clauses of the property at once ... *)
Theorem C10_hull_meets_spec : forall l,
  (exists p q r, In p l /\ In q l /\ In r l /\ cross p q r <> 0) ->
  exists v0 mid,
    hull l = v0 :: mid ++ [v0] /\ NoDup (v0 :: mid) /\
    (forall v, In v (hull l) -> In v l) /\
    (forall p, In p l -> le2 v0 p) /\
    (forall l1 a b c l2, hull l ++ [nth 1 (hull l) (0, 0)] = l1 ++ a :: b :: c :: l2 -> cross a b c > 0) /\
    (forall p, In p l -> forall l1 a b l2, hull l = l1 ++ a :: b :: l2 -> cross a b p >= 0).
Proof. exact hull_meets_spec. Qed.
Print Assumptions C10_hull_meets_spec.

(* ... and ANY ring r with those clauses (closed, no repeated vertex, vertices among the inputs,
   starting at the lexicographically smallest input, strict left turns all the way round, every
   input on or left of every edge) is equal to [hull l]: the clauses determine the answer, so the
   model is the exact-arithmetic reference and not merely one ring among several.
   (non-vacuous: by C10_hull_meets_spec the hypotheses are met by r := hull l for every such l) *)
Theorem C10_hull_unique : forall l r v0 mid,
  (exists p q r, In p l /\ In q l /\ In r l /\ cross p q r <> 0) ->
  r = v0 :: mid ++ [v0] -> NoDup (v0 :: mid) ->
  (forall v, In v r -> In v l) ->
  (forall p, In p l -> le2 v0 p) ->
  (forall l1 a b c l2, r ++ [nth 1 r (0, 0)] = l1 ++ a :: b :: c :: l2 -> cross a b c > 0) ->
  (forall p, In p l -> forall l1 a b l2, r = l1 ++ a :: b :: l2 -> cross a b p >= 0) ->
  r = hull l.
Proof. exact hull_unique. Qed.
Print Assumptions C10_hull_unique.

(* ---- the public entry points return exactly that ring ----------------------------------------- *)
(* GeoPolygon's constructor neither re-closes nor reverses the hull: it is closed and its
   shoelace sum has the counter-clockwise sign; no members at all raise IndexError *)
Theorem C10_entry_points : forall ms,
  hull_of_members ms =
  match concat ms with [] => Err IndexError | _ => Ok (hull (concat ms)) end.
Proof. exact hull_of_members_spec. Qed.
Print Assumptions C10_entry_points.

(* ---- the hypotheses above are met by concrete inputs ------------------------------------------ *)
Definition ex_square : list pt :=
  [(1, 1); (0, 0); (2, 0); (1, 0); (2, 2); (0, 2); (0, 0); (2, 1); (1, 2)].

(* not all collinear; repeats, points on edges and inside; a 4-vertex closed ring comes out *)
Example C10_nonvacuous_convex :
  (exists p q r, In p ex_square /\ In q ex_square /\ In r ex_square /\ cross p q r <> 0) /\
  hull ex_square = [(0, 0); (2, 0); (2, 2); (0, 2); (0, 0)] /\
  (* an input on an edge (cross = 0) and an input strictly inside (cross > 0) *)
  In (1, 0) ex_square /\ cross (0, 0) (2, 0) (1, 0) = 0 /\
  In (1, 1) ex_square /\ cross (0, 0) (2, 0) (1, 1) > 0.
Proof.
  split; [exists (0, 0), (2, 0), (2, 2); cbn; intuition discriminate|].
  split; [vm_compute; reflexivity|]. cbn. intuition lia.
Qed.

Definition ex_line : list pt := [(2, 4); (0, 0); (1, 2); (2, 4); (-1, -2)].

Example C10_nonvacuous_collinear :
  In (0, 0) ex_line /\ In (1, 2) ex_line /\ (0, 0) <> (1, 2) /\
  (forall p q r, In p ex_line -> In q ex_line -> In r ex_line -> cross p q r = 0) /\
  hull ex_line = [(-1, -2); (2, 4); (-1, -2)].
Proof.
  split; [cbn; tauto|]. split; [cbn; tauto|]. split; [discriminate|].
  split; [|vm_compute; reflexivity].
  intros p q r Hp Hq Hr. cbn in Hp, Hq, Hr.
  repeat match goal with H : _ \/ _ |- _ => destruct H | H : False |- _ => destruct H end;
    subst; reflexivity.
Qed.

Example C10_nonvacuous_entry :
  hull_of_members [[(0, 0); (2, 0)]; [(1, 1)]; [(1, 3); (0, 0)]] =
  Ok [(0, 0); (2, 0); (1, 3); (0, 0)].
Proof. vm_compute. reflexivity. Qed.
