(* C10 - the convex hull is the exact hull of the input coordinates.
   This file holds only statements closed by [exact] and their Print Assumptions. *)
From Coq Require Import Sorted Permutation.
From GV Require Import Prelude HullM HullP.
Open Scope Z_scope.

(* every hull vertex is an input coordinate *)
Theorem C10_hull_subset : forall l v, In v (hull l) -> In v l.
Proof. exact hull_subset. Qed.
Print Assumptions C10_hull_subset.

(* the sort step is THE strictly increasing list of the distinct inputs *)
Theorem C10_dedup_sort_spec : forall l s,
  StronglySorted lt2 s -> (forall x, In x s <-> In x l) -> dedup_sort l = s.
Proof. exact dedup_sort_spec. Qed.
Print Assumptions C10_dedup_sort_spec.

(* order of the input is irrelevant *)
Theorem C10_hull_perm : forall l l', Permutation l l' -> hull l = hull l'.
Proof. exact hull_perm. Qed.
Print Assumptions C10_hull_perm.

(* multiplicity is irrelevant: the hull is a function of the SET of inputs *)
Theorem C10_hull_same_set : forall l l', (forall x, In x l <-> In x l') -> hull l = hull l'.
Proof. exact hull_same_set. Qed.
Print Assumptions C10_hull_same_set.

Theorem C10_hull_multiplicity : forall l, hull (l ++ l) = hull l.
Proof. exact hull_multiplicity. Qed.
Print Assumptions C10_hull_multiplicity.
