(* C04 — multi-shapes relate as the union of their members.  For EVERY member-level
   predicate (cc / cs / is_ are universally quantified), every member list, every order. *)
From Coq Require Import Permutation.
From GV Require Import Prelude TimeM ShapeM ShapeP.
Open Scope Z_scope.

Section C04.
  Variables member shape coord : Type.
  Variable cc : member -> coord -> bool.
  Variable cs : member -> shape -> bool.
  Variable is_ : member -> shape -> bool.

  Theorem C04_contains_coordinate : forall ms c,
    multi_cc _ _ cc ms c = true <-> exists m, In m ms /\ cc m c = true.
  Proof. exact (multi_cc_spec member coord cc). Qed.

  Theorem C04_intersects_single : forall ms s,
    multi_is _ _ is_ ms (Single s) = true <-> exists m, In m ms /\ is_ m s = true.
  Proof. exact (multi_is_single member shape is_). Qed.

  Theorem C04_intersects_multi : forall ms ps,
    multi_is _ _ is_ ms (Parts ps) = true <-> exists p m, In p ps /\ In m ms /\ is_ m p = true.
  Proof. exact (multi_is_parts member shape is_). Qed.

  Theorem C04_contains_single : forall ms s,
    multi_cs _ _ cs ms (Single s) = true <-> exists m, In m ms /\ cs m s = true.
  Proof. exact (multi_cs_single member shape cs). Qed.

  Theorem C04_contains_multi : forall ms ps,
    multi_cs _ _ cs ms (Parts ps) = true <-> forall p, In p ps -> exists m, In m ms /\ cs m p = true.
  Proof. exact (multi_cs_parts member shape cs). Qed.

  (* the multi-shape as ARGUMENT of a single shape's predicate *)
  Theorem C04_single_intersects_multi : forall (xi : shape -> bool) ps,
    single_is_multi _ xi ps = true <-> exists p, In p ps /\ xi p = true.
  Proof. exact (single_is_multi_spec shape). Qed.

  Theorem C04_single_contains_multi : forall (xc : shape -> bool) ps,
    single_cs_multi _ xc ps = true <-> forall p, In p ps -> xc p = true.
  Proof. exact (single_cs_multi_spec shape). Qed.

  (* receiver side = argument side whenever the member-level test is symmetric *)
  Theorem C04_intersects_sym_lift : forall (is2 : shape -> member -> bool) ms x,
    (forall m, is_ m x = is2 x m) ->
    multi_is _ _ is_ ms (Single x) = single_is_multi _ (is2 x) ms.
  Proof. exact (multi_is_sym_lift member shape is_). Qed.

  Theorem C04_member_order_irrelevant : forall ms ms', Permutation ms ms' ->
    (forall c, multi_cc _ _ cc ms c = multi_cc _ _ cc ms' c) /\
    (forall a, multi_is _ _ is_ ms a = multi_is _ _ is_ ms' a) /\
    (forall a, multi_cs _ _ cs ms a = multi_cs _ _ cs ms' a).
  Proof. exact (perm_invariant member shape coord cc cs is_). Qed.
End C04.
Print Assumptions C04_contains_coordinate.
Print Assumptions C04_intersects_single.
Print Assumptions C04_intersects_multi.
Print Assumptions C04_contains_single.
Print Assumptions C04_contains_multi.
Print Assumptions C04_single_intersects_multi.
Print Assumptions C04_single_contains_multi.
Print Assumptions C04_intersects_sym_lift.
Print Assumptions C04_member_order_irrelevant.

Theorem C04_bounds_union : forall bs r, multi_bounds bs = Ok r ->
  (forall b, In b bs -> b_minlon r <= b_minlon b /\ b_minlat r <= b_minlat b /\
                        b_maxlon b <= b_maxlon r /\ b_maxlat b <= b_maxlat r) /\
  (exists b, In b bs /\ b_minlon b = b_minlon r) /\ (exists b, In b bs /\ b_minlat b = b_minlat r) /\
  (exists b, In b bs /\ b_maxlon b = b_maxlon r) /\ (exists b, In b bs /\ b_maxlat b = b_maxlat r).
Proof. exact multi_bounds_union. Qed.
Print Assumptions C04_bounds_union.

Theorem C04_bounds_defined : forall b bs, exists r, multi_bounds (b :: bs) = Ok r.
Proof. exact multi_bounds_nonempty. Qed.
Print Assumptions C04_bounds_defined.

Theorem C04_split : forall (props : Type) (pdt : option iv) (pp : props) ms,
  length (split props pdt pp ms) = length ms /\
  map (fun m => fst (fst m)) (split props pdt pp ms) = map (fun m => fst (fst m)) ms /\
  forall m, In m (split props pdt pp ms) -> snd (fst m) = pdt /\ snd m = pp.
Proof. exact split_spec. Qed.
Print Assumptions C04_split.

Example C04_nonvacuous :
  (* the intersecting member is the SECOND one: the D6 defect class *)
  multi_is nat nat (fun m s => Nat.eqb m 2) [1; 2; 3]%nat (Single 0%nat) = true /\
  multi_cs nat nat (fun m s => Nat.eqb m s) [1; 2]%nat (Parts [2; 1]%nat) = true /\
  multi_cs nat nat (fun m s => Nat.eqb m s) [1; 2]%nat (Parts [2; 3]%nat) = false /\
  multi_bounds [(0, 0, 1, 1); (-5, 2, 0, 9)] = Ok (-5, 0, 1, 9).
Proof. cbv. auto. Qed.
