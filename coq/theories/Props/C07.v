(* C07 - Geodesic calculator: distance, bearing and destination are mutually consistent.
   This file holds only statements closed by [exact] and their Print Assumptions.
   The model (Model/SphereM.v) is over the real numbers; `hdist` = haversine_distance_meters,
   `bearing` = bearing_degrees (default precision), `bearing_raw` its value before rounding,
   `dest_rad`/`dest_deg` = inverse_haversine_radians/degrees before the 1e-7 rounding,
   `dist_xyz` = dist_xyz_meters, `rot` = rotate_coordinates (one coordinate). *)
From GV Require Import Prelude SphereM SphereP1 SphereP2 SphereP3 SphereP4 SphereP5.
From Coq Require Import Reals Lra.
Open Scope R_scope.

(* --- distance: symmetric, zero on identical points, at most half the circumference --- *)
Theorem C07_dist_sym : forall p q, hdist p q = hdist q p.
Proof. exact hdist_sym. Qed.
Print Assumptions C07_dist_sym.

Theorem C07_dist_refl : forall p, hdist p p = 0.
Proof. exact hdist_refl. Qed.
Print Assumptions C07_dist_refl.

Theorem C07_dist_range : forall p q, 0 <= hdist p q <= PI * Rearth.
Proof. exact hdist_range. Qed.
Print Assumptions C07_dist_range.

(* the bound is attained: exactly antipodal points are half the circumference apart *)
Theorem C07_dist_antipode : forall l f, hdist (l, f) (l + 180, - f) = PI * Rearth.
Proof. exact hdist_antipode. Qed.
Print Assumptions C07_dist_antipode.

(* --- it IS the great-circle distance of the 6 371 000 m sphere: radius times the angle between
       the two unit vectors --- *)
Theorem C07_hav_is_great_circle : forall p q,
  cos (hdist p q / Rearth) = dot3 (uvec p) (uvec q) /\
  hdist p q = Rearth * acos (dot3 (uvec p) (uvec q)) /\ Rearth = 6371000.
Proof. exact hdist_great_circle_full. Qed.
Print Assumptions C07_hav_is_great_circle.

Theorem C07_dist_xyz_is_haversine : forall p q, dist_xyz p q = hdist p q.
Proof. exact dist_xyz_hdist. Qed.
Print Assumptions C07_dist_xyz_is_haversine.

(* --- the antimeridian un-wrapping (ensure_edge_bounds) changes nothing --- *)
Theorem C07_unwrap_noop : forall p q, hdist p q = hdist_raw p q.
Proof. exact hdist_unwrap. Qed.
Print Assumptions C07_unwrap_noop.

(* --- same longitude shift s of both points, each re-normalised by whole turns --- *)
Theorem C07_dist_lon_shift : forall l1 f1 l2 f2 s (k1 k2 : Z),
  hdist (l1 + s + 360 * IZR k1, f1) (l2 + s + 360 * IZR k2, f2) = hdist (l1, f1) (l2, f2).
Proof. exact hdist_lon_shift. Qed.
Print Assumptions C07_dist_lon_shift.

(* --- bearing in [0,360), before and after the rounding (D11 repaired) --- *)
Theorem C07_bearing_range : forall p q,
  0 <= bearing_raw p q < 360 /\ 0 <= bearing p q < 360.
Proof. exact (fun p q => conj (bearing_raw_range p q) (bearing_range p q)). Qed.
Print Assumptions C07_bearing_range.

Theorem C07_bearing_rounding : forall p q, exists k : Z,
  Rabs (bearing p q + 360 * IZR k - bearing_raw p q) <= / 2 / 10 ^ 5 + / 10 ^ 17.
Proof. exact bearing_rounding. Qed.
Print Assumptions C07_bearing_rounding.

(* --- destination: at the requested distance ... --- *)
Theorem C07_dest_dist : forall p theta d,
  -90 <= lat p <= 90 -> 0 <= d <= PI * Rearth ->
  hdist p (dest_rad p theta d) = d.
Proof. exact dest_dist. Qed.
Print Assumptions C07_dest_dist.

(* ... and on the requested initial bearing (start not a pole, destination not a pole,
   0 < d < half the circumference; bearing given in degrees of [0,360)) *)
Theorem C07_dest_bearing : forall p b d,
  -90 < lat p < 90 -> 0 < d < PI * Rearth -> 0 <= b < 360 ->
  -90 < lat (dest_deg p b d) < 90 ->
  bearing_raw p (dest_deg p b d) = b.
Proof. exact dest_bearing_deg. Qed.
Print Assumptions C07_dest_bearing.

(* --- the bearing IS the initial great-circle azimuth: travelling along the computed bearing for
       the computed distance arrives at the second point (longitude up to whole turns) --- *)
Theorem C07_bearing_is_azimuth : forall p q,
  -90 < lat p < 90 -> -90 < lat q < 90 -> 0 < hdist p q < PI * Rearth ->
  exists m : Z,
    dest_rad p (rad (bearing_raw p q)) (hdist p q) = (lon q + 360 * IZR m, lat q).
Proof. exact inverse_then_direct. Qed.
Print Assumptions C07_bearing_is_azimuth.

(* --- degree and radian entry points are the same function --- *)
Theorem C07_deg_rad_same : forall p a d,
  dest_deg p a d = dest_rad p (a * PI / 180) d /\
  dest_deg_rounded p a d = dest_rad_rounded p (a * PI / 180) d.
Proof. exact deg_rad_same. Qed.
Print Assumptions C07_deg_rad_same.

(* --- the returned (rounded) destination is within 5e-8 degrees (+1e-19) per axis --- *)
Theorem C07_dest_rounding : forall p theta d,
  Rabs (lon (dest_rad_rounded p theta d) - lon (dest_rad p theta d)) <= / 2 / 10 ^ 7 + / 10 ^ 19 /\
  Rabs (lat (dest_rad_rounded p theta d) - lat (dest_rad p theta d)) <= / 2 / 10 ^ 7 + / 10 ^ 19.
Proof. exact dest_rounding. Qed.
Print Assumptions C07_dest_rounding.

(* --- ... hence within 2 cm (in METRES, haversine) of the exact destination, which is exactly d away from the
       start at the requested initial bearing (C07_dest_dist, C07_dest_bearing): "to within 2 cm" --- *)
Theorem C07_dest_within_2cm : forall p theta d,
  hdist (dest_rad_rounded p theta d) (dest_rad p theta d) <= 2 / 100.
Proof. exact dest_rounded_within_2cm. Qed.
Print Assumptions C07_dest_within_2cm.

(* the general fact behind it: coordinates within e degrees of each other on both axes are at most
   2 * Rearth * rad e metres apart *)
Theorem C07_small_displacement : forall c1 c2 e,
  0 <= e <= 1 -> Rabs (lon c2 - lon c1) <= e -> Rabs (lat c2 - lat c1) <= e ->
  hdist c1 c2 <= 2 * Rearth * rad e.
Proof. exact hdist_small. Qed.
Print Assumptions C07_small_displacement.

(* --- planar rotation about an origin: identity at 0, additive, distance preserving;
       rot = rot_raw after un-wrapping the input by whole turns --- *)
Theorem C07_rot_zero : forall o p, rot_raw o p 0 = p.
Proof. exact rot_raw_zero. Qed.
Print Assumptions C07_rot_zero.

Theorem C07_rot_compose : forall o p a b, rot_raw o (rot_raw o p b) a = rot_raw o p (a + b).
Proof. exact rot_raw_compose. Qed.
Print Assumptions C07_rot_compose.

Theorem C07_rot_isometry : forall o p a, pdist2 o (rot_raw o p a) = pdist2 o p.
Proof. exact rot_raw_isometry. Qed.
Print Assumptions C07_rot_isometry.

Theorem C07_rot_unwrap : forall o p a, exists k : Z,
  rot o p a = rot_raw o (lon p + 360 * IZR k, lat p) a.
Proof. exact rot_unfold. Qed.
Print Assumptions C07_rot_unwrap.

(* --- non-vacuity: the hypotheses of dest_dist / dest_bearing are met by a concrete input --- *)
Example C07_nonvacuous_dest : let p := (10, 45) in
  (-90 < lat p < 90) /\ (0 < 1000000 < PI * Rearth) /\ (0 <= 30 < 360) /\
  hdist p (dest_deg p 30 1000000) = 1000000.
Proof. exact nonvacuous_dest. Qed.
