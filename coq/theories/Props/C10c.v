(* C10c — where the planar hull meets GeoPolygon's antimeridian convention (finding D55).
   HullM models the entry points under the assumption that ensure_edge_bounds is the identity (no hull edge spans more
   than 180 degrees of longitude); RingM (C14) models GeoPolygon's constructor WITH the adjustment.  Composing the two:
   the adjustment is the identity on every edge spanning at most half a turn, and a concrete wide input whose hull the
   constructor reverses.  Only statements and their Print Assumptions. *)
From GV Require Import Prelude HullM RingM.
Open Scope Z_scope.

Definition to_ring (r : list (Z * Z)) : ring := map (fun p => mkc (fst p) (snd p) None) r.

(* the domain assumption of C10's model, stated: on an edge spanning at most half a turn the adjustment does nothing *)
Theorem C10_narrow_edge_unadjusted : forall half a b,
  Z.abs (RingM.lon a - RingM.lon b) <= half -> adj_lon half a b = RingM.lon b.
Proof.
  intros half a b H. unfold adj_lon.
  destruct (Z.abs (RingM.lon a - RingM.lon b) >? half) eqn:E; [|reflexivity].
  apply Z.gtb_lt in E. lia.
Qed.
Print Assumptions C10_narrow_edge_unadjusted.

(* D55: three coordinates spread over 340 degrees; the hull ring is counter-clockwise in the plane, its closing edge
   spans more than 180 degrees, and the constructor model (degrees, half = 180) reverses it *)
Theorem C10_wide_hull_reversed_refuted :
  exists l, hull l = [(-170, 0); (0, 1); (170, 10); (-170, 0)] /\
    HullM.cross (-170, 0) (0, 1) (170, 10) > 0 /\
    norm_ring 180 false (to_ring (hull l)) = rev (to_ring (hull l)) /\
    rev (to_ring (hull l)) <> to_ring (hull l).
Proof.
  exists [(-170, 0); (0, 1); (170, 10)]. vm_compute. repeat split; try reflexivity; discriminate.
Qed.
Print Assumptions C10_wide_hull_reversed_refuted.
