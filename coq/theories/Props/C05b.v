(* C05b — laws of the space-time predicates: a law of the spatial predicate lifts through the time gate by the order
   laws of TimeInterval (C06b).  The spatial predicates are universally quantified.
   Only statements closed by [exact] and their Print Assumptions. *)
From Coq Require Import QArith.
From GV Require Import Prelude TimeM TimeP TimeP2 ShapeM ShapeP ShapeP2.
Open Scope Z_scope.

(* a symmetric spatial answer gives a symmetric space-time answer *)
Theorem C05_intersects_sym : forall (is_ : shp -> shp -> bool) a b, wf_shp a -> wf_shp b ->
  is_ a b = is_ b a -> ShapeM.intersects is_ a b = ShapeM.intersects is_ b a.
Proof. exact st_intersects_sym. Qed.
Print Assumptions C05_intersects_sym.

(* if spatial containment implies spatial intersection for the pair, so does the space-time form *)
Theorem C05_contains_imp_intersects : forall (cs is_ : shp -> shp -> bool) a b, wf_shp a -> wf_shp b ->
  (cs a b = true -> is_ a b = true) ->
  contains cs a b = true -> ShapeM.intersects is_ a b = true.
Proof. exact st_contains_imp_intersects. Qed.
Print Assumptions C05_contains_imp_intersects.

(* transitivity lifts when the middle shape carries time bounds whenever both ends do ... *)
Theorem C05_contains_trans : forall (cs : shp -> shp -> bool) a b c, wf_shp a -> wf_shp b -> wf_shp c ->
  (sdt b = None -> sdt a = None \/ sdt c = None) ->
  (cs a b = true -> cs b c = true -> cs a c = true) ->
  contains cs a b = true -> contains cs b c = true -> contains cs a c = true.
Proof. exact st_contains_trans. Qed.
Print Assumptions C05_contains_trans.

(* ... and the side condition is needed: an untimed middle shape links two shapes disjoint in time *)
Theorem C05_contains_trans_untimed_middle_refuted :
  exists a b c, wf_shp a /\ wf_shp b /\ wf_shp c /\
    contains (fun _ _ => true) a b = true /\ contains (fun _ _ => true) b c = true /\
    contains (fun _ _ => true) a c = false.
Proof. exact st_contains_trans_needs_middle_dt. Qed.
Print Assumptions C05_contains_trans_untimed_middle_refuted.

(* widening the receiver's time bounds keeps a yes *)
Theorem C05_contains_mono : forall (cs : shp -> shp -> bool) a a' b x x', wf_shp b -> wf x -> wf x' ->
  sdt a = Some x -> sdt a' = Some x' -> issubset x x' = true -> cs a' b = cs a b ->
  contains cs a b = true -> contains cs a' b = true.
Proof. exact st_contains_mono. Qed.
Print Assumptions C05_contains_mono.

Theorem C05_intersects_mono : forall (is_ : shp -> shp -> bool) a a' b x x', wf_shp b -> wf x -> wf x' ->
  sdt a = Some x -> sdt a' = Some x' -> issubset x x' = true -> is_ a' b = is_ a b ->
  ShapeM.intersects is_ a b = true -> ShapeM.intersects is_ a' b = true.
Proof. exact st_intersects_mono. Qed.
Print Assumptions C05_intersects_mono.

(* shapes whose time sets are disjoint neither intersect nor contain one another, whatever the geometry *)
Theorem C05_disjoint_time : forall (cs is_ : shp -> shp -> bool) a b x y,
  sdt a = Some x -> sdt b = Some y -> wf x -> wf y -> isdisjoint x y = true ->
  ShapeM.intersects is_ a b = false /\ contains cs a b = false.
Proof. exact st_disjoint_time. Qed.
Print Assumptions C05_disjoint_time.

(* the datetime forms of the time tests are the zero-length-interval forms *)
Theorem C05_intersects_time_instant : forall s t, wf_shp s ->
  intersects_time s (mkiv t t) = intersects_time_dt s t.
Proof. exact intersects_time_instant. Qed.
Print Assumptions C05_intersects_time_instant.

Theorem C05_contains_time_instant : forall s t, contains_time s (mkiv t t) = contains_time_dt s t.
Proof. exact contains_time_instant. Qed.
Print Assumptions C05_contains_time_instant.

Example C05b_nonvacuous :
  let a := mkshp (Some (mkiv 0 10)) 1 in let b := mkshp (Some (mkiv 2 5)) 2 in let c := mkshp (Some (mkiv 3 3)) 3 in
  wf_shp a /\ wf_shp b /\ wf_shp c /\
  contains (fun _ _ => true) a b = true /\ contains (fun _ _ => true) b c = true /\
  contains (fun _ _ => true) a c = true /\ ShapeM.intersects (fun _ _ => true) a c = true /\
  issubset (mkiv 2 5) (mkiv 0 10) = true /\ isdisjoint (mkiv 0 10) (mkiv 10 10) = true.
Proof. cbv. repeat split; discriminate. Qed.
