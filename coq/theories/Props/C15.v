(* C15 — shapes have value semantics: equality, hashing, copy and pickle agree.
   This file holds only statements closed by [exact] and their Print Assumptions.
   [curve] (bounding coordinates of curved holes) is universally quantified everywhere.
   wf_shape: every stored polygon outline (also of polygon holes and members) is closed and has
   >= 2 entries, which GeoPolygon.__init__ establishes for every ring (C15_mk_outline_ok). *)
From Coq Require Import Permutation.
From GV Require Import Prelude ValueM ValueP ValueP2 ValueP3.
Open Scope Z_scope.

(* ---- equal shapes hash equally (every kind; multi-shapes through the set of member keys) *)
Theorem C15_eq_hkey : forall curve a b, wf_shape a -> wf_shape b ->
  shape_eqb curve a b = true -> key_eqv (hkey a) (hkey b) = true.
Proof. exact eq_hkey. Qed.
Print Assumptions C15_eq_hkey.

(* ---- equality is an equivalence *)
Theorem C15_eqb_refl : forall curve s, wf_shape s -> shape_eqb curve s s = true.
Proof. exact shape_eqb_refl. Qed.
Print Assumptions C15_eqb_refl.

Theorem C15_eqb_sym : forall curve a b, wf_shape a -> wf_shape b ->
  shape_eqb curve a b = true -> shape_eqb curve b a = true.
Proof. exact shape_eqb_sym. Qed.
Print Assumptions C15_eqb_sym.

Theorem C15_eqb_trans : forall curve a b c, wf_shape a -> wf_shape b -> wf_shape c ->
  shape_eqb curve a b = true -> shape_eqb curve b c = true -> shape_eqb curve a c = true.
Proof. exact shape_eqb_trans. Qed.
Print Assumptions C15_eqb_trans.

(* why the outline hypothesis is there: a one-entry outline is unequal to itself (the rotation loop
   runs len-1 = 0 times).  Outside the property's domain (not a ring); kept as a witness. *)
Theorem C15_eqb_refl_unrestricted_refuted :
  exists s, shape_eqb (fun _ => []) s s = false.
Proof. exists (One (SArea (GPoly [(1, 1, None)]) [] None)). reflexivity. Qed.
Print Assumptions C15_eqb_refl_unrestricted_refuted.

(* ---- the rotation search of GeoPolygon.__eq__ decides "same open ring up to start and winding" *)
Theorem C15_outline_eqb_spec : forall so oo,
  outline_eqb so oo = true <->
  (length so = length oo /\ removelast oo <> [] /\ Cyc (removelast so) (removelast oo)).
Proof. exact outline_eqb_spec. Qed.
Print Assumptions C15_outline_eqb_spec.

(* ---- the constructor: stores a closed ring; the closing point may be omitted *)
Theorem C15_mk_outline_ok : forall b r, r <> [] -> ring_ok (mk_outline b (cl r)).
Proof. exact mk_outline_ok. Qed.
Print Assumptions C15_mk_outline_ok.

Theorem C15_mk_outline_unclosed : forall b r, hd dflt r <> last r dflt ->
  mk_outline b r = mk_outline b (cl r).
Proof. exact mk_outline_unclosed. Qed.
Print Assumptions C15_mk_outline_unclosed.

(* ---- a polygon equals itself re-written from any start vertex / in the opposite winding, for
   the outline and every hole outline at once.  Hole rings need non-zero signed area (psum). *)
Theorem C15_poly_eq_rot_rev : forall curve r r' hs hs' d,
  r <> [] -> Cyc r' r -> Forall2 hole_rewrite hs' hs ->
  exists p p', mk_poly (cl r) hs d = Ok p /\ mk_poly (cl r') hs' d = Ok p' /\
               single_eqb curve p' p = true /\ single_eqb curve p p' = true.
Proof. exact poly_eq_rot_rev. Qed.
Print Assumptions C15_poly_eq_rot_rev.

(* the stored hole outline has the same directed edges however the ring was written *)
Theorem C15_hole_edges_rot_rev : forall b q q', q <> [] -> psum (cl q) <> 0 -> Cyc q' q ->
  Permutation (dedges (mk_outline b (cl q'))) (dedges (mk_outline b (cl q))).
Proof. exact hole_edges_rot_rev. Qed.
Print Assumptions C15_hole_edges_rot_rev.

Theorem C15_poly_eq_holes_perm : forall curve o hs hs' d, ring_ok o -> Permutation hs hs' ->
  single_eqb curve (SArea (GPoly o) hs d) (SArea (GPoly o) hs' d) = true.
Proof. exact poly_eq_holes_perm. Qed.
Print Assumptions C15_poly_eq_holes_perm.

(* ---- multi-shapes: set(...) == set(...) is mutual inclusion of the members; reordering is free *)
Theorem C15_multi_eqb_spec : forall curve k1 m1 d1 k2 m2 d2,
  Forall wf_single m1 -> Forall wf_single m2 ->
  (shape_eqb curve (Multi k1 m1 d1) (Multi k2 m2 d2) = true <->
   members_incl curve m1 m2 /\ members_incl curve m2 m1 /\ d1 = d2).
Proof. exact multi_eqb_spec. Qed.
Print Assumptions C15_multi_eqb_spec.

Theorem C15_multi_eq_perm : forall curve k ms ms' d, Forall wf_single ms -> Permutation ms ms' ->
  shape_eqb curve (Multi k ms d) (Multi k ms' d) = true.
Proof. exact multi_eq_perm. Qed.
Print Assumptions C15_multi_eq_perm.

(* ---- what equality pins down (sound and complete), and its contrapositives *)
Theorem C15_eq_sound : forall curve a b, single_eqb curve a b = true <-> same_single curve a b.
Proof. exact single_eqb_spec. Qed.
Print Assumptions C15_eq_sound.

Theorem C15_neq_dt : forall curve s d d', d <> d' ->
  shape_eqb curve (with_dt s d) (with_dt s d') = false.
Proof. exact with_dt_neq. Qed.
Print Assumptions C15_neq_dt.

Theorem C15_neq_vertex : forall curve o o' hs hs' d d' x,
  In x (removelast o) -> ~ In x (removelast o') ->
  single_eqb curve (SArea (GPoly o) hs d) (SArea (GPoly o') hs' d') = false.
Proof. exact poly_neq_vertex. Qed.
Print Assumptions C15_neq_vertex.

(* ---- copy() and the pickle round trip: equal values ... *)
Theorem C15_copy_eq : forall curve s, wf_shape s ->
  shape_eqb curve (copy_val s) s = true /\ shape_eqb curve s (copy_val s) = true.
Proof. exact copy_eq. Qed.
Print Assumptions C15_copy_eq.

Theorem C15_copy_wf : forall s, wf_shape s -> wf_shape (copy_val s).
Proof. exact copy_wf. Qed.
Print Assumptions C15_copy_wf.

Theorem C15_pickle_eq : forall curve s, wf_shape s ->
  pickle_val s = s /\ shape_eqb curve (pickle_val s) s = true /\ shape_eqb curve s (pickle_val s) = true.
Proof. exact pickle_eq. Qed.
Print Assumptions C15_pickle_eq.

(* ---- ... in new cells: object, _properties, nested containers, dt (members' too) *)
Theorem C15_copy_fresh : forall n o, below n (all_locs o) ->
  let o' := fst (copy_obj n o) in
  atleast n (own_locs o') /\ (forall l, In l (own_locs o') -> ~ In l (all_locs o)).
Proof. exact copy_fresh. Qed.
Print Assumptions C15_copy_fresh.

(* copy() keeps the very same hole objects (holes=self.holes.copy()): stated, not hidden *)
Theorem C15_copy_shares_holes : forall n o, hole_locs (fst (copy_obj n o)) = hole_locs o.
Proof. exact copy_shares_holes. Qed.
Print Assumptions C15_copy_shares_holes.

Theorem C15_pickle_fresh : forall n o, below n (all_locs o) ->
  let o' := fst (pickle_obj n o) in
  atleast n (all_locs o') /\ (forall l, In l (all_locs o') -> ~ In l (all_locs o)).
Proof. exact pickle_fresh. Qed.
Print Assumptions C15_pickle_fresh.

(* writing to any own cell of the copy / any cell of the unpickled object is invisible in the original *)
Theorem C15_copy_isolated : forall V (h : store V) n o l v, below n (all_locs o) ->
  In l (own_locs (fst (copy_obj n o))) -> view V (upd V h l v) o = view V h o.
Proof. exact copy_isolated. Qed.
Print Assumptions C15_copy_isolated.

Theorem C15_pickle_isolated : forall V (h : store V) n o l v, below n (all_locs o) ->
  In l (all_locs (fst (pickle_obj n o))) -> view V (upd V h l v) o = view V h o.
Proof. exact pickle_isolated. Qed.
Print Assumptions C15_pickle_isolated.

(* ------------------------------------------------------------------ non-vacuity *)
Definition p00 : coord := (0, 0, None).
Definition p40 : coord := (4, 0, None).
Definition p44 : coord := (4, 4, None).
Definition p04 : coord := (0, 4, None).
Definition sq : list coord := [p00; p40; p44; p04].
Definition sq' : list coord := [p44; p40; p00; p04].           (* other start, other winding *)
Definition tri : list coord := [(1, 1, None); (2, 1, None); (1, 2, None)].
Definition tri' : list coord := [(1, 2, None); (2, 1, None); (1, 1, None)].
Definition nocurve : geom -> list coord := fun _ => [].

Lemma ring_ok_dec o : (2 <=? length o)%nat && coord_eqb (hd dflt o) (last o dflt) = true -> ring_ok o.
Proof.
  intro H. apply andb_true_iff in H as [H1 H2]. apply Nat.leb_le in H1. apply coord_eqb_eq in H2.
  split; assumption.
Qed.

Example C15_nonvacuous_eq_hkey :
  let a := One (SArea (GPoly (cl sq)) [mkhole (GPoly (mk_outline false (cl tri))) None] (Some (0, 5))) in
  let b := One (SArea (GPoly (cl sq')) [mkhole (GPoly (mk_outline false (cl tri'))) None] (Some (0, 5))) in
  wf_shape a /\ wf_shape b /\ a <> b /\ shape_eqb nocurve a b = true /\ key_eqv (hkey a) (hkey b) = true.
Proof.
  cbn zeta. split; [|split].
  - split; [apply ring_ok_dec; reflexivity|]. constructor; [|constructor]. apply ring_ok_dec. reflexivity.
  - split; [apply ring_ok_dec; reflexivity|]. constructor; [|constructor]. apply ring_ok_dec. reflexivity.
  - split; [discriminate|]. split; vm_compute; reflexivity.
Qed.

Example C15_nonvacuous_rot_rev :
  sq <> [] /\ Cyc sq' sq /\ sq' <> sq /\
  Forall2 hole_rewrite [mkhole (GPoly (mk_outline false (cl tri'))) None]
                       [mkhole (GPoly (mk_outline false (cl tri))) None].
Proof.
  split; [discriminate|]. split; [|split; [discriminate|]].
  - right. exists [p04], [p44; p40; p00]. split; reflexivity.
  - constructor; [|constructor]. right. exists tri, tri'. split; [discriminate|]. split; [vm_compute; discriminate|].
    split; [|split; reflexivity]. right. exists [], (rev tri). split; reflexivity.
Qed.

Example C15_nonvacuous_multi :
  let ms := [SPoint p00 None; SPoint p44 (Some (1, 1)); SPoint p40 None] in
  let ms' := [SPoint p40 None; SPoint p00 None; SPoint p44 (Some (1, 1))] in
  Forall wf_single ms /\ Permutation ms ms' /\ ms <> ms'.
Proof.
  cbn zeta. split; [repeat constructor|]. split; [|discriminate].
  apply Permutation_sym. apply perm_trans with (SPoint p00 None :: SPoint p40 None :: [SPoint p44 (Some (1, 1))]).
  - apply perm_swap.
  - apply perm_skip. apply perm_swap.
Qed.

Example C15_nonvacuous_copy :
  let o := OM (mkmobj (mkoc 0 1 [2] (Some 3)) [mksobj (mkoc 4 5 [] (Some 6)) [mkoc 7 8 [] None]]) in
  below 9 (all_locs o) /\
  fst (copy_obj 9 o) = OM (mkmobj (mkoc 12 13 [14] (Some 15)) [mksobj (mkoc 9 10 [] (Some 11)) [mkoc 7 8 [] None]]) /\
  fst (pickle_obj 9 o) = OM (mkmobj (mkoc 9 10 [11] (Some 12)) [mksobj (mkoc 13 14 [] (Some 15)) [mkoc 16 17 [] None]]).
Proof.
  cbn zeta. split; [|split; reflexivity].
  intros l H. cbn in H. repeat (destruct H as [<-|H]; [lia|]). destruct H.
Qed.

Example C15_nonvacuous_neq :
  with_dt (One (SPoint p00 None)) (Some (0, 1)) <> with_dt (One (SPoint p00 None)) None /\
  In p44 (removelast (cl sq)) /\ ~ In p44 (removelast (cl tri)).
Proof.
  split; [discriminate|]. split; [cbn; tauto|]. cbn. intros [H|[H|[H|[]]]]; discriminate.
Qed.
