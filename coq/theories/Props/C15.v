(* C15 — shapes have value semantics: equality, hashing, copy and pickle agree.
   This file holds only statements closed by [exact] and their Print Assumptions. *)
From GV Require Import Prelude ValueM ValueP.
Open Scope Z_scope.

(* the rotation search of GeoPolygon.__eq__ decides "same open ring up to start vertex and winding" *)
Theorem C15_outline_eqb_spec : forall so oo,
  outline_eqb so oo = true <->
  (length so = length oo /\ removelast oo <> [] /\ Cyc (removelast so) (removelast oo)).
Proof. exact outline_eqb_spec. Qed.
Print Assumptions C15_outline_eqb_spec.
