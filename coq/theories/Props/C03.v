(* C03 - Curved shapes follow their geodesic definition, analytically and as polygons.
   Only statements closed by [exact] and their Print Assumptions.
   Model: Model/CurveM.v over Model/SphereM.v (real numbers).  `hdist` is the great-circle
   distance (C07_hav_is_great_circle), `bearing` the bearing returned by bearing_degrees
   (rounded to 1e-5), `bearing_raw` its value before rounding; boundary points are the
   destinations before the 1e-7 degree rounding (C07_dest_rounding bounds the difference). *)
From GV Require Import Prelude SphereM SphereP1 SphereP2 SphereP3 CurveM CurveP SphereP5.
From Coq Require Import Reals Lra.
Open Scope R_scope.

(* --- the analytic tests are the documented definitions, holes removed --- *)
Theorem C03_circle_contains_def : forall s p,
  circle_contains s p = true <->
  hdist (c_center s) p <= c_radius s /\ (forall h, In h (c_holes s) -> h p = false).
Proof. exact circle_contains_def. Qed.
Print Assumptions C03_circle_contains_def.

Theorem C03_ellipse_contains_def : forall s p,
  ellipse_contains s p = true <->
  hdist (e_center s) p <= radius_at s (rad (bearing (e_center s) p - e_rotation s)) /\
  (forall h, In h (e_holes s) -> h p = false).
Proof. exact ellipse_contains_def. Qed.
Print Assumptions C03_ellipse_contains_def.

(* after repair D36 the bearing is compared with the angle range modulo 360 *)
Theorem C03_ring_contains_def : forall s p,
  ring_contains s p = true <->
  (r_amax s - r_amin s < 360 -> Rmod (bearing (r_center s) p - r_amin s) 360 <= r_amax s - r_amin s) /\
  r_inner s <= hdist (r_center s) p <= r_outer s /\
  (forall h, In h (r_holes s) -> h p = false).
Proof. exact ring_contains_def. Qed.
Print Assumptions C03_ring_contains_def.

(* ... which is the documented angle-range definition read modulo full turns: the bearing plus some
   whole number of turns lies in [angle_min, angle_max] (350..370 and -10..10 describe the same wedge
   through north), and for a range inside [0, 360] and a bearing in [0, 360) it is the plain
   comparison, with bearing 0 also accepted as 360 *)
Theorem C03_wedge_angle_spec : forall amin amax b, 0 <= amax - amin < 360 ->
  (Rmod (b - amin) 360 <= amax - amin <-> exists n : Z, amin <= b + 360 * IZR n <= amax).
Proof. exact wedge_angle_spec. Qed.
Print Assumptions C03_wedge_angle_spec.

Theorem C03_wedge_angle_plain : forall amin amax b,
  0 <= amin -> amin <= amax -> amax <= 360 -> amax - amin < 360 -> 0 <= b < 360 ->
  (Rmod (b - amin) 360 <= amax - amin <-> (amin <= b <= amax \/ amin <= b + 360 <= amax)).
Proof. exact wedge_angle_plain. Qed.
Print Assumptions C03_wedge_angle_plain.

(* --- the ellipse radius function: semi-major on the axis, semi-minor across, between otherwise --- *)
Theorem C03_radius_at_axes : forall e, 0 < e_minor e -> e_minor e <= e_major e ->
  radius_at e 0 = e_major e /\ radius_at e (PI / 2) = e_minor e /\
  (forall t, e_minor e <= radius_at e t <= e_major e).
Proof. exact radius_at_axes. Qed.
Print Assumptions C03_radius_at_axes.

(* --- every generated boundary point lies on the defined curve, for every k and i --- *)
Theorem C03_circle_pt_on_curve : forall s k i,
  -90 <= lat (c_center s) <= 90 -> 0 <= c_radius s <= PI * Rearth ->
  hdist (c_center s) (circle_pt s k i) = c_radius s.
Proof. exact circle_pt_on_curve. Qed.
Print Assumptions C03_circle_pt_on_curve.

Theorem C03_circle_pt_accepted : forall s k i,
  -90 <= lat (c_center s) <= 90 -> 0 <= c_radius s <= PI * Rearth ->
  (forall h, In h (c_holes s) -> h (circle_pt s k i) = false) ->
  circle_contains s (circle_pt s k i) = true.
Proof. exact circle_pt_accepted. Qed.
Print Assumptions C03_circle_pt_accepted.

(* the boundary and the analytic test of the ellipse use the same curve (rotation sign and
   bearing convention agree) *)
Theorem C03_ellipse_pt_on_curve : forall s k i,
  -90 < lat (e_center s) < 90 ->
  0 < e_minor s -> e_minor s <= e_major s -> e_major s < PI * Rearth ->
  -90 < lat (ellipse_pt s k i) < 90 ->
  hdist (e_center s) (ellipse_pt s k i)
  = radius_at s (rad (bearing_raw (e_center s) (ellipse_pt s k i) - e_rotation s)).
Proof. exact ellipse_pt_on_curve. Qed.
Print Assumptions C03_ellipse_pt_on_curve.

Theorem C03_ellipse_pt_bearing : forall s k i,
  -90 < lat (e_center s) < 90 ->
  0 < e_minor s -> e_minor s <= e_major s -> e_major s < PI * Rearth ->
  -90 < lat (ellipse_pt s k i) < 90 ->
  exists z : Z,
    bearing_raw (e_center s) (ellipse_pt s k i) = deg (ellipse_angle k i) + e_rotation s + 360 * IZR z.
Proof. exact ellipse_pt_bearing. Qed.
Print Assumptions C03_ellipse_pt_bearing.

Theorem C03_ring_pts_on_curve : forall s k i,
  -90 <= lat (r_center s) <= 90 -> 0 <= r_inner s <= r_outer s -> r_outer s <= PI * Rearth ->
  hdist (r_center s) (ring_outer_pt s k i) = r_outer s /\
  hdist (r_center s) (ring_inner_pt s k i) = r_inner s.
Proof. exact ring_pts_on_curve. Qed.
Print Assumptions C03_ring_pts_on_curve.

Theorem C03_ring_pts_bearing : forall s k i,
  -90 < lat (r_center s) < 90 -> 0 < r_inner s <= r_outer s -> r_outer s < PI * Rearth ->
  (0 < k)%nat -> (i <= k)%nat -> 0 <= r_amin s <= r_amax s -> r_amax s < 360 ->
  -90 < lat (ring_outer_pt s k i) < 90 -> -90 < lat (ring_inner_pt s k i) < 90 ->
  bearing_raw (r_center s) (ring_outer_pt s k i) = ring_angle_deg s k i /\
  bearing_raw (r_center s) (ring_inner_pt s k i) = ring_angle_deg s k i /\
  r_amin s <= ring_angle_deg s k i <= r_amax s.
Proof. exact ring_pts_bearing. Qed.
Print Assumptions C03_ring_pts_bearing.

(* rings and wedges: the bearings of the generated points grow strictly with the index on both arcs
   (the lists walk the index down, so along each list the bearings strictly decrease): angular order *)
Theorem C03_ring_pts_angular_order : forall s k i1 i2,
  -90 < lat (r_center s) < 90 -> 0 < r_inner s <= r_outer s -> r_outer s < PI * Rearth ->
  (0 < k)%nat -> (i1 < i2)%nat -> (i2 <= k)%nat -> 0 <= r_amin s -> r_amin s < r_amax s -> r_amax s < 360 ->
  (forall i, -90 < lat (ring_outer_pt s k i) < 90) -> (forall i, -90 < lat (ring_inner_pt s k i) < 90) ->
  bearing_raw (r_center s) (ring_outer_pt s k i1) < bearing_raw (r_center s) (ring_outer_pt s k i2) /\
  bearing_raw (r_center s) (ring_inner_pt s k i1) < bearing_raw (r_center s) (ring_inner_pt s k i2).
Proof. exact ring_pts_angular_order. Qed.
Print Assumptions C03_ring_pts_angular_order.

(* --- k+1 points, walked from 2*pi down to 0, in angular order, first = last --- *)
Theorem C03_circle_pts_shape : forall s k,
  length (circle_pts s k) = S k /\
  forall j, (j <= k)%nat -> nth j (circle_pts s k) (circle_pt s k 0) = circle_pt s k (k - j).
Proof. exact circle_pts_shape. Qed.
Print Assumptions C03_circle_pts_shape.

Theorem C03_circle_pt_bearing : forall s k i,
  -90 < lat (c_center s) < 90 -> 0 < c_radius s < PI * Rearth ->
  (i < k)%nat -> -90 < lat (circle_pt s k i) < 90 ->
  bearing_raw (c_center s) (circle_pt s k i) = 360 * INR i / INR k.
Proof. exact circle_pt_bearing. Qed.
Print Assumptions C03_circle_pt_bearing.

Theorem C03_circle_pts_angular_order : forall s k j1 j2,
  -90 < lat (c_center s) < 90 -> 0 < c_radius s < PI * Rearth ->
  (forall i, -90 < lat (circle_pt s k i) < 90) ->
  (1 <= j1)%nat -> (j1 < j2)%nat -> (j2 <= k)%nat ->
  bearing_raw (c_center s) (nth j2 (circle_pts s k) (circle_pt s k 0))
  < bearing_raw (c_center s) (nth j1 (circle_pts s k) (circle_pt s k 0)).
Proof. exact circle_pts_angular_order. Qed.
Print Assumptions C03_circle_pts_angular_order.

Theorem C03_first_last : forall k, (0 < k)%nat ->
  (forall s, circle_pt s k k = circle_pt s k 0) /\
  (forall s, ellipse_pt s k k = ellipse_pt s k 0) /\
  (forall s, r_amin s = 0 -> r_amax s = 360 ->
     ring_outer_pt s k k = ring_outer_pt s k 0 /\ ring_inner_pt s k k = ring_inner_pt s k 0).
Proof.
  exact (fun k Hk => conj (fun s => circle_first_last s k Hk)
                     (conj (fun s => ellipse_first_last s k Hk) (fun s => ring_first_last s k Hk))).
Qed.
Print Assumptions C03_first_last.

Theorem C03_ellipse_pts_shape : forall s k,
  length (ellipse_pts s k) = S k /\
  forall j, (j <= k)%nat -> nth j (ellipse_pts s k) (ellipse_pt s k 0) = ellipse_pt s k (k - j).
Proof. exact ellipse_pts_shape. Qed.
Print Assumptions C03_ellipse_pts_shape.

Theorem C03_ring_pts_shape : forall s k,
  (ring_is_full s = true -> ring_pts s k = ring_outer_pts s k /\ length (ring_pts s k) = S k) /\
  (ring_is_full s = false ->
     length (ring_pts s k) = S (2 * S k) /\
     hd (0, 0) (ring_pts s k) = last (ring_pts s k) (0, 0)).
Proof. exact ring_pts_shape. Qed.
Print Assumptions C03_ring_pts_shape.

(* --- "within 2 cm": PARTIAL.  Proved: the coordinate actually returned (rounded to 1e-7 deg) differs
       from a point lying EXACTLY on the curve by at most 5e-8 (+1e-19) degrees on each axis.
       Not proved: the conversion of that coordinate error into metres (<= 7.9 mm on the
       6 371 000 m sphere), and the float/libm error; both are observed by the correspondence
       (interval tie at 5.1e-8 deg; numeric oracle at 2 cm). --- *)
Theorem C03_boundary_within_2cm_partial : forall c theta d,
  -90 <= lat c <= 90 -> 0 <= d <= PI * Rearth ->
  exists q, hdist c q = d /\
    Rabs (lon (dest_rad_rounded c theta d) - lon q) <= / 2 / 10 ^ 7 + / 10 ^ 19 /\
    Rabs (lat (dest_rad_rounded c theta d) - lat q) <= / 2 / 10 ^ 7 + / 10 ^ 19.
Proof. exact boundary_rounded. Qed.
Print Assumptions C03_boundary_within_2cm_partial.

(* ... and in METRES: every boundary coordinate the code returns is within 2 cm (haversine) of a point that lies
   exactly on the defined curve (distance d from the centre, at the scheduled bearing).  What remains unproved of the
   "2 cm" clause is only the float/libm evaluation error (observed by the correspondence). *)
Theorem C03_boundary_within_2cm : forall c theta d,
  -90 <= lat c <= 90 -> 0 <= d <= PI * Rearth ->
  exists q, hdist c q = d /\ hdist (dest_rad_rounded c theta d) q <= 2 / 100.
Proof. exact boundary_within_2cm. Qed.
Print Assumptions C03_boundary_within_2cm.

(* --- non-vacuity --- *)
Example C03_nonvacuous : let s := mkcircle (10, 45) 5000 [] in
  (-90 < lat (c_center s) < 90) /\ (0 < c_radius s < PI * Rearth) /\
  hdist (c_center s) (circle_pt s 36 7) = 5000 /\ circle_contains s (circle_pt s 36 7) = true.
Proof. exact nonvacuous_circle. Qed.
