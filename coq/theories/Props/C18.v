(* C18 — collection filters select exactly the members satisfying the per-shape predicate.
   Only statements closed by [exact] and their Print Assumptions.
   [wf_coll c] (FilterP.v): c is as a constructor leaves it — a FeatureCollection is any list;
   a Track holds only shapes with dt, in non-decreasing start order (C17).
   [sublist] (CollP2.v): order-preserving sub-sequence.  The per-shape predicates that the
   library delegates to its members are universally quantified (Section variables of the
   model); the check instantiates them with the implementation's own per-shape answers. *)
From Coq Require Import QArith Permutation Sorted.
From GV Require Import Prelude CollM CollP CollP2 FilterM FilterP.
From GV Require TimeM TimeP.
Open Scope Z_scope.

(* ---- what a constructor leaves ---- *)
Theorem C18_constructor : forall k l c, rewrap_as k l = Ok c ->
  ckind c = k /\ wf_coll c /\ Permutation (members c) l /\
  (k = FC -> members c = l) /\
  (k = TR -> forall s, filter (fun x => sstart x =? s) (members c) = filter (fun x => sstart x =? s) l).
Proof. exact rewrap_as_wf. Qed.
Print Assumptions C18_constructor.

Theorem C18_constructor_rejects : forall k l,
  rewrap_as k l = Err ValueError <-> k = TR /\ exists x, In x l /\ sdt x = None.
Proof. exact rewrap_as_err. Qed.
Print Assumptions C18_constructor_rejects.

(* ---- every filter is [filter_with p] for its per-shape predicate p: note the argument
        order of the two containment filters ---- *)
Theorem C18_filters_are_filter_with :
  forall query (x_intersects_q x_contains_q q_contains_x : query -> shape -> bool) c q a b d,
  filter_by_intersection query x_intersects_q c q = filter_with (x_intersects_q q) c /\
  filter_contains query x_contains_q c q = filter_with (x_contains_q q) c /\
  filter_contained_by query q_contains_x c q = filter_with (q_contains_x q) c /\
  filter_by_dt_instant c d = filter_with (p_dt_instant d) c /\
  filter_by_dt_interval c a b = filter_with (p_dt_interval a b) c.
Proof. exact (fun _ _ _ _ _ _ _ _ _ => conj eq_refl (conj eq_refl (conj eq_refl (conj eq_refl eq_refl)))). Qed.
Print Assumptions C18_filters_are_filter_with.

(* ---- exactly the members satisfying p, nothing raises, same class, same order ---- *)
Theorem C18_filter_is_list_filter : forall p c, wf_coll c ->
  filter_with p c = Ok (mkcoll (ckind c) (filter p (members c))).
Proof. exact filter_with_ok. Qed.
Print Assumptions C18_filter_is_list_filter.

Theorem C18_filter_exact : forall p c out, wf_coll c -> filter_with p c = Ok out ->
  forall x, In x (members out) <-> In x (members c) /\ p x = true.
Proof. exact filter_exact. Qed.
Print Assumptions C18_filter_exact.

Theorem C18_filter_order : forall p c out, wf_coll c -> filter_with p c = Ok out ->
  sublist (members out) (members c).
Proof. exact filter_order. Qed.
Print Assumptions C18_filter_order.

(* FeatureCollection |-> FeatureCollection, Track |-> Track (still chronological, all with dt) *)
Theorem C18_filter_kind : forall p c out, wf_coll c -> filter_with p c = Ok out ->
  ckind out = ckind c /\ wf_coll out.
Proof. exact filter_kind. Qed.
Print Assumptions C18_filter_kind.

(* filter_by_property: KeyError iff some member lacks the key, otherwise the filter by
   func(x.properties[key]) *)
Theorem C18_filter_by_property_spec : forall prop_test c key,
  ((exists x, In x (members c) /\ prop_test key x = None) ->
     filter_by_property prop_test c key = Err KeyError) /\
  ((forall x, In x (members c) -> prop_test key x <> None) ->
     filter_by_property prop_test c key =
     filter_with (fun x => match prop_test key x with Some b => b | None => false end) c).
Proof. exact filter_by_property_spec. Qed.
Print Assumptions C18_filter_by_property_spec.

(* the time predicates of filter_by_dt *)
Theorem C18_dt_instant_pred : forall d x, p_dt_instant d x = true <-> sdt x = Some (d, d).
Proof. exact p_dt_instant_spec. Qed.
Print Assumptions C18_dt_instant_pred.

Theorem C18_dt_interval_pred : forall a b x, a <= b ->
  (forall s e, sdt x = Some (s, e) -> s <= e) ->
  (p_dt_interval a b x = true <->
   exists s e, sdt x = Some (s, e) /\
     exists t : Q, TimeP.mem t (TimeM.mkiv a b) /\ TimeP.mem t (TimeM.mkiv s e)).
Proof. exact p_dt_interval_spec. Qed.
Print Assumptions C18_dt_interval_pred.

(* ---- bounds: component-wise least box over the members' bounds ---- *)
Theorem C18_coll_bounds_spec : forall c,
  (members c = [] -> coll_bounds c = Err ValueError) /\
  (members c <> [] -> exists B, coll_bounds c = Ok B /\
     is_min (b0 B) (map b0 (map sbounds (members c))) /\
     is_min (b1 B) (map b1 (map sbounds (members c))) /\
     is_max (b2 B) (map b2 (map sbounds (members c))) /\
     is_max (b3 B) (map b3 (map sbounds (members c)))).
Proof. exact coll_bounds_spec. Qed.
Print Assumptions C18_coll_bounds_spec.

Theorem C18_coll_bounds_cover : forall c B m, coll_bounds c = Ok B -> In m (members c) ->
  (b0 B <= b0 (sbounds m) /\ b1 B <= b1 (sbounds m) /\
   b2 (sbounds m) <= b2 B /\ b3 (sbounds m) <= b3 B)%Q.
Proof. exact coll_bounds_cover. Qed.
Print Assumptions C18_coll_bounds_cover.

Theorem C18_coll_bounds_union : forall k a b A B C,
  coll_bounds a = Ok A -> coll_bounds b = Ok B ->
  coll_bounds (mkcoll k (members a ++ members b)) = Ok C ->
  (b0 C == qmin (b0 A) (b0 B) /\ b1 C == qmin (b1 A) (b1 B) /\
   b2 C == qmax (b2 A) (b2 B) /\ b3 C == qmax (b3 A) (b3 B))%Q.
Proof. exact coll_bounds_union. Qed.
Print Assumptions C18_coll_bounds_union.

(* ---- convex hull: RELATIVE to C10.  [hull] and [inside] are arbitrary; the last premise is
        C10's containment theorem (every input point lies in the closed hull), assumed here as a
        hypothesis of the statement, not proved in this file. ---- *)
Theorem C18_hull_contains_members :
  forall (pt : Type) (verts : shape -> list pt) (hull : list pt -> list pt)
         (inside : pt -> list pt -> Prop),
  (forall l p, In p l -> inside p (hull l)) ->
  forall c m v, In m (members c) -> In v (verts m) -> inside v (coll_hull pt verts hull c).
Proof. exact hull_contains_members. Qed.
Print Assumptions C18_hull_contains_members.

(* ---- list protocol ---- *)
Theorem C18_len_bool_iter : forall c,
  coll_len c = Z.of_nat (length (members c)) /\
  (coll_bool c = true <-> members c <> []) /\ coll_iter c = members c.
Proof. exact (fun c => conj (proj1 (coll_len_spec c)) (conj (coll_bool_spec c) eq_refl)). Qed.
Print Assumptions C18_len_bool_iter.

Theorem C18_getitem : forall c i d,
  let n := Z.of_nat (length (members c)) in
  (0 <= i < n -> fc_getitem c i = Ok (nth (Z.to_nat i) (members c) d)) /\
  (- n <= i < 0 -> fc_getitem c i = Ok (nth (Z.to_nat (n + i)) (members c) d)) /\
  (i < - n \/ n <= i -> fc_getitem c i = Err IndexError).
Proof. exact fc_getitem_spec. Qed.
Print Assumptions C18_getitem.

Theorem C18_contains : forall sh_eq c x,
  coll_contains sh_eq c x = true <->
  exists y, In y (members c) /\ (sid y = sid x \/ sh_eq y x = true).
Proof. exact coll_contains_spec. Qed.
Print Assumptions C18_contains.

Theorem C18_add : forall a b,
  (ckind a = FC -> ckind b = FC -> coll_add a b = Ok (mkcoll FC (members a ++ members b))) /\
  (ckind a <> ckind b -> coll_add a b = Err ValueError) /\
  (ckind a = TR -> ckind b = TR -> wf_coll a -> wf_coll b ->
     exists l, coll_add a b = Ok (mkcoll TR l) /\
               StronglySorted (fun x y => sstart x <= sstart y) l /\
               Permutation l (members a ++ members b) /\
               forall k, filter (fun x => sstart x =? k) l =
                         filter (fun x => sstart x =? k) (members a) ++
                         filter (fun x => sstart x =? k) (members b)).
Proof. exact coll_add_spec. Qed.
Print Assumptions C18_add.

(* ---- non-vacuity ---- *)
Definition ex_b := (inject_Z 0, inject_Z 0, inject_Z 1, inject_Z 1).
Definition ex_fc := mkcoll FC [mkshape 0 None ex_b; mkshape 1 (Some (5, 9)) (inject_Z 2, inject_Z (-1), inject_Z 3, inject_Z 4);
                               mkshape 2 (Some (1, 1)) ex_b].
Definition ex_tr := mkcoll TR [mkshape 2 (Some (1, 1)) ex_b; mkshape 1 (Some (5, 9)) ex_b].
Example C18_nonvacuous :
  wf_coll ex_fc /\ wf_coll ex_tr /\
  option_map (map sid) (match filter_with (fun x => negb (sid x =? 1)) ex_fc with Ok c => Some (members c) | _ => None end) = Some [0; 2] /\
  option_map (map sid) (match filter_by_dt_interval ex_tr 0 5 with Ok c => Some (members c) | _ => None end) = Some [2] /\
  filter_by_property (fun _ x => if sid x =? 2 then None else Some true) ex_fc 0 = Err KeyError /\
  coll_bounds ex_fc = Ok (inject_Z 0, inject_Z (-1), inject_Z 3, inject_Z 4) /\
  rewrap_as TR (members ex_fc) = Err ValueError.
Proof.
  split; [exact I|]. split; [split; [reflexivity|repeat constructor; unfold le_key; cbn; lia]|].
  vm_compute. repeat split.
Qed.
