(* C06b — order and lattice laws of TimeInterval, consequences of the set semantics of C06.
   Only statements closed by [exact] and their Print Assumptions. *)
From Coq Require Import QArith.
From GV Require Import Prelude TimeM TimeP TimeP2.
Open Scope Z_scope.

(* two well-formed intervals denoting the same set are the same value (start, end): the set semantics is injective *)
Theorem C06_mem_ext : forall a b, wf a -> wf b -> (forall t, mem t a <-> mem t b) -> a = b.
Proof. exact mem_ext. Qed.
Print Assumptions C06_mem_ext.

(* issubset is a partial order: reflexive, *)
Theorem C06_issubset_refl : forall a, wf a -> issubset a a = true.
Proof. exact issubset_refl. Qed.
Print Assumptions C06_issubset_refl.

(* transitive, *)
Theorem C06_issubset_trans : forall a b c, wf a -> wf b -> wf c ->
  issubset a b = true -> issubset b c = true -> issubset a c = true.
Proof. exact issubset_trans. Qed.
Print Assumptions C06_issubset_trans.

(* antisymmetric up to __eq__ *)
Theorem C06_issubset_antisym : forall a b, wf a -> wf b ->
  issubset a b = true -> issubset b a = true -> iv_eqb a b = true.
Proof. exact issubset_antisym. Qed.
Print Assumptions C06_issubset_antisym.

(* an instant is a subset exactly when its moment is a member *)
Theorem C06_issubset_instant : forall t b, issubset (mkiv t t) b = contains_dt b t.
Proof. exact issubset_instant. Qed.
Print Assumptions C06_issubset_instant.

(* intersecting an instant = containing its moment *)
Theorem C06_intersects_instant : forall a t, wf a -> intersects a (mkiv t t) = contains_dt a t.
Proof. exact intersects_instant. Qed.
Print Assumptions C06_intersects_instant.

Theorem C06_intersects_sym : forall a b, wf a -> wf b -> intersects a b = intersects b a.
Proof. exact intersects_sym. Qed.
Print Assumptions C06_intersects_sym.

(* intersection is commutative, idempotent and associative (None absorbing, never an error) *)
Theorem C06_intersection_comm : forall a b, wf a -> wf b -> intersection a b = intersection b a.
Proof. exact intersection_comm. Qed.
Print Assumptions C06_intersection_comm.

Theorem C06_intersection_idem : forall a, wf a -> intersection a a = Ok (Some a).
Proof. exact intersection_idem. Qed.
Print Assumptions C06_intersection_idem.

Theorem C06_intersection_assoc : forall a b c, wf a -> wf b -> wf c ->
  inter_opt (intersection a b) c =
  match intersection b c with
  | Ok (Some bc) => intersection a bc
  | Ok None => Ok None
  | Err e => Err e
  end.
Proof. exact intersection_assoc. Qed.
Print Assumptions C06_intersection_assoc.

(* None exactly when isdisjoint; Some exactly when intersects *)
Theorem C06_intersection_none_iff : forall a b, wf a -> wf b ->
  (intersection a b = Ok None <-> isdisjoint a b = true).
Proof. exact intersection_none_iff. Qed.
Print Assumptions C06_intersection_none_iff.

Theorem C06_intersection_some_iff : forall a b, wf a -> wf b ->
  ((exists c, intersection a b = Ok (Some c)) <-> intersects a b = true).
Proof. exact intersection_some_iff. Qed.
Print Assumptions C06_intersection_some_iff.

(* the intersection is the greatest lower bound of the subset order *)
Theorem C06_intersection_lower : forall a b c, wf a -> wf b -> intersection a b = Ok (Some c) ->
  wf c /\ issubset c a = true /\ issubset c b = true.
Proof. exact intersection_lower. Qed.
Print Assumptions C06_intersection_lower.

Theorem C06_intersection_greatest : forall a b d, wf a -> wf b -> wf d ->
  issubset d a = true -> issubset d b = true ->
  exists c, intersection a b = Ok (Some c) /\ issubset d c = true.
Proof. exact intersection_greatest. Qed.
Print Assumptions C06_intersection_greatest.

Theorem C06_issubset_iff_intersection : forall a b, wf a -> wf b ->
  (issubset a b = true <-> intersection a b = Ok (Some a)).
Proof. exact issubset_iff_intersection. Qed.
Print Assumptions C06_issubset_iff_intersection.

(* the hull is commutative, idempotent, associative *)
Theorem C06_union_comm : forall a b, union a b = union b a.
Proof. exact union_comm. Qed.
Print Assumptions C06_union_comm.

Theorem C06_union_idem : forall a, wf a -> union a a = Ok a.
Proof. exact union_idem. Qed.
Print Assumptions C06_union_idem.

Theorem C06_union_assoc : forall a b c ab bc, wf a -> wf b -> wf c ->
  union a b = Ok ab -> union b c = Ok bc -> union ab c = union a bc.
Proof. exact union_assoc. Qed.
Print Assumptions C06_union_assoc.

(* a subset adds nothing to the hull; absorption *)
Theorem C06_issubset_union : forall a b, wf a -> wf b -> issubset a b = true -> union a b = Ok b.
Proof. exact issubset_union. Qed.
Print Assumptions C06_issubset_union.

Theorem C06_absorb_union_intersection : forall a b c, wf a -> wf b ->
  intersection a b = Ok (Some c) -> union a c = Ok a.
Proof. exact absorb_union_intersection. Qed.
Print Assumptions C06_absorb_union_intersection.

(* for two proper intervals the hull is an upper bound in the subset order (instants at the end: D8, C06_union_covers_refuted) *)
Theorem C06_union_upper_proper : forall a b c, wf a -> wf b -> st a < en a -> st b < en b ->
  union a b = Ok c -> issubset a c = true /\ issubset b c = true.
Proof. exact union_upper_proper. Qed.
Print Assumptions C06_union_upper_proper.

(* monotonicity in the subset order *)
Theorem C06_intersects_mono : forall a b c, wf a -> wf b -> wf c ->
  issubset a b = true -> intersects a c = true -> intersects b c = true.
Proof. exact intersects_mono. Qed.
Print Assumptions C06_intersects_mono.

Theorem C06_issubset_intersects : forall a b, wf a -> wf b -> issubset a b = true -> intersects a b = true.
Proof. exact issubset_intersects. Qed.
Print Assumptions C06_issubset_intersects.

Theorem C06_contains_dt_mono : forall a b t, wf a -> wf b ->
  issubset a b = true -> contains_dt a t = true -> contains_dt b t = true.
Proof. exact contains_dt_mono. Qed.
Print Assumptions C06_contains_dt_mono.

(* non-vacuity: overlapping, nested, touching and instant values meet the hypotheses *)
Example C06b_nonvacuous :
  wf (mkiv 0 10) /\ wf (mkiv 3 7) /\ wf (mkiv 5 20) /\ wf (mkiv 7 7) /\
  issubset (mkiv 3 7) (mkiv 0 10) = true /\
  intersection (mkiv 0 10) (mkiv 5 20) = Ok (Some (mkiv 5 10)) /\
  inter_opt (intersection (mkiv 0 10) (mkiv 5 20)) (mkiv 3 7) = Ok (Some (mkiv 5 7)) /\
  inter_opt (intersection (mkiv 0 10) (mkiv 5 20)) (mkiv 7 7) = Ok (Some (mkiv 7 7)) /\
  intersection (mkiv 3 7) (mkiv 7 7) = Ok None /\
  union (mkiv 3 7) (mkiv 5 20) = Ok (mkiv 3 20) /\
  intersects (mkiv 0 10) (mkiv 7 7) = true.
Proof. unfold wf; cbn. repeat split; lia. Qed.
