(* C08, float part: what is proved of the bit-exact binary64 model CoordF.mkf of
   Coordinate.__init__ - for EVERY pair of doubles (finite or not) and every fuel.
   `mkf fuel lon lat bounded = Some (lon', lat')` reads: the constructor, run on the converted
   inputs, leaves both loops within `fuel` iterations each and stores (lon', lat').
   Statements only; proofs in Proofs/CoordFP.v (no axiom: the "axioms" printed for those are the
   kernel's primitive float type and operations, not propositions) and Proofs/CoordFT.v
   (termination: uses the stdlib's FloatAxioms - the SpecFloat specification of the primitive
   operations - and, through Flocq, the classical reals). *)
From Coq Require Import PrimFloat.
From GV Require Import Prelude CoordF CoordFP CoordFT.

(* stored longitude in [-180, 180), stored latitude in [-90, 90] (IEEE comparisons) *)
Theorem C08f_range : forall fuel lon lat lon' lat',
  mkf fuel lon lat true = Some (lon', lat') ->
  (PrimFloat.leb (-90)%float lat' && PrimFloat.leb lat' 90%float)%bool = true /\
  (PrimFloat.leb (-180)%float lon' && PrimFloat.leb lon' 180%float)%bool = true /\
  PrimFloat.eqb lon' 180%float = false.
Proof. exact mkf_range. Qed.
Print Assumptions C08f_range.

(* normalising the stored pair again changes nothing, bit for bit, even with no fuel *)
Theorem C08f_idempotent : forall fuel lon lat lon' lat',
  mkf fuel lon lat true = Some (lon', lat') ->
  forall fuel2, mkf fuel2 lon' lat' true = Some (lon', lat').
Proof. exact mkf_idempotent. Qed.
Print Assumptions C08f_idempotent.

(* the result does not depend on the fuel *)
Theorem C08f_fuel_mono : forall f1 f2 lon lat bounded r, (f1 <= f2)%nat ->
  mkf f1 lon lat bounded = Some r -> mkf f2 lon lat bounded = Some r.
Proof. exact mkf_fuel_mono. Qed.
Print Assumptions C08f_fuel_mono.

(* an in-range pair is stored as given, except longitude 180 -> -180 *)
Theorem C08f_in_range : forall fuel lon lat,
  (PrimFloat.leb (-90)%float lat && PrimFloat.leb lat 90%float)%bool = true ->
  (PrimFloat.leb (-180)%float lon && PrimFloat.leb lon 180%float)%bool = true ->
  mkf fuel lon lat true = Some (if PrimFloat.eqb lon 180%float then (-180)%float else lon, lat).
Proof. exact mkf_in_range. Qed.
Print Assumptions C08f_in_range.

(* _bounded=False: only the 180 -> -180 fold *)
Theorem C08f_unbounded : forall fuel lon lat,
  mkf fuel lon lat false = Some (if PrimFloat.eqb lon 180%float then (-180)%float else lon, lat).
Proof. exact mkf_unbounded. Qed.
Print Assumptions C08f_unbounded.

(* TERMINATION: for every pair of doubles with -1e5 <= lon <= 1e5 and -1e5 <= lat <= 1e5 (IEEE
   comparisons, so finite) each loop of the float code ends within 559 iterations *)
Theorem C08f_terminates : forall lon lat,
  (PrimFloat.leb (-100000)%float lon && PrimFloat.leb lon 100000%float)%bool = true ->
  (PrimFloat.leb (-100000)%float lat && PrimFloat.leb lat 100000%float)%bool = true ->
  exists lon' lat', mkf 559 lon lat true = Some (lon', lat').
Proof. exact mkf_terminates. Qed.
Print Assumptions C08f_terminates.

(* ... and with the fuel the correspondence uses (CoordFK.kfuel = 2000): the model returns, the
   stored pair is in range and is a fixed point of the constructor *)
Theorem C08f_total : forall lon lat,
  (PrimFloat.leb (-100000)%float lon && PrimFloat.leb lon 100000%float)%bool = true ->
  (PrimFloat.leb (-100000)%float lat && PrimFloat.leb lat 100000%float)%bool = true ->
  exists lon' lat', mkf 2000 lon lat true = Some (lon', lat') /\
    (PrimFloat.leb (-90)%float lat' && PrimFloat.leb lat' 90%float)%bool = true /\
    (PrimFloat.leb (-180)%float lon' && PrimFloat.leb lon' 180%float)%bool = true /\
    PrimFloat.eqb lon' 180%float = false /\
    forall fuel2, mkf fuel2 lon' lat' true = Some (lon', lat').
Proof. exact mkf_total_2000. Qed.
Print Assumptions C08f_total.

(* the bound on the inputs is needed: on the finite double 2^61 the first loop cycles for ever
   (Coordinate(0.0, 2.0**61) does not return) *)
Theorem C08f_diverges_2p61 : forall fuel, mkf fuel 0%float 0x1p+61%float true = None.
Proof. exact mkf_diverges_2p61. Qed.
Print Assumptions C08f_diverges_2p61.

(* non-vacuity: an out-of-range, non-dyadic input on which float operations round
   (Coordinate(99999.123, -99999.77)); 556 + 0 iterations *)
Example C08f_nonvacuous :
  mkf 600 0x1.869f1f7ced917p+16%float (-0x1.869fc51eb851fp+16)%float true
  = Some ((-0x1.43820c49ba400p+6)%float, 0x1.40eb851eb8400p+6%float).
Proof. vm_compute. reflexivity. Qed.
