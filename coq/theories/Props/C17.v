(* C17 — a Track is always chronological; slicing and speed filtering are exact.
   Only statements closed by [exact] and their Print Assumptions. *)
From Coq Require Import QArith Permutation Sorted.
From GV Require Import Prelude CollM CollP.
Open Scope Z_scope.

(* Track(shapes) is in non-decreasing start order: every earlier shape starts no later than
   every later one (StronglySorted), hence also adjacent-wise (Sorted). *)
Theorem C17_mk_sorted : forall raws t, mk_track raws = Ok t ->
  StronglySorted (fun x y => st x <= st y) t /\ Sorted (fun x y => st x <= st y) t.
Proof. exact (fun raws t H => conj (mk_sorted raws t H) (sorted_adjacent st t (mk_sorted raws t H))). Qed.
Print Assumptions C17_mk_sorted.

Theorem C17_mk_perm : forall raws t, mk_track raws = Ok t -> Permutation (map Timed t) raws.
Proof. exact mk_perm. Qed.
Print Assumptions C17_mk_perm.

(* stability: shapes with the same start keep the order they had in the input *)
Theorem C17_mk_stable : forall l t, mk_track (map Timed l) = Ok t ->
  forall k, filter (fun x => st x =? k) t = filter (fun x => st x =? k) l.
Proof. exact mk_stable. Qed.
Print Assumptions C17_mk_stable.

(* ... and that pins the result completely *)
Theorem C17_mk_unique : forall l t t', mk_track (map Timed l) = Ok t ->
  StronglySorted (fun x y => st x <= st y) t' ->
  (forall k, filter (fun x => st x =? k) t' = filter (fun x => st x =? k) l) -> t' = t.
Proof. exact mk_unique. Qed.
Print Assumptions C17_mk_unique.

Theorem C17_mk_rejects_nodt : forall raws,
  (mk_track raws = Err ValueError <-> exists i p, In (Untimed i p) raws) /\
  ((~ exists i p, In (Untimed i p) raws) ->
   exists l, raws = map Timed l /\ mk_track raws = Ok (isort st l)).
Proof. exact mk_rejects_nodt. Qed.
Print Assumptions C17_mk_rejects_nodt.
