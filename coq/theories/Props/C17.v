(* C17 — a Track is always chronological; slicing and speed filtering are exact.
   Only statements closed by [exact] and their Print Assumptions. *)
From Coq Require Import QArith Permutation Sorted.
From GV Require Import Prelude CollM CollP CollP2 CollP3.
From GV Require TimeM TimeP.
Open Scope Z_scope.

(* Track(shapes) is in non-decreasing start order: every earlier shape starts no later than
   every later one (StronglySorted), hence also adjacent-wise (Sorted). *)
Theorem C17_mk_sorted : forall raws t, mk_track raws = Ok t ->
  StronglySorted (fun x y => st x <= st y) t /\ Sorted (fun x y => st x <= st y) t.
Proof. exact (fun raws t H => conj (mk_sorted raws t H) (sorted_adjacent st t (mk_sorted raws t H))). Qed.
Print Assumptions C17_mk_sorted.

Theorem C17_mk_perm : forall raws t, mk_track raws = Ok t -> Permutation (map Timed t) raws.
Proof. exact mk_perm. Qed.
Print Assumptions C17_mk_perm.

(* stability: shapes with the same start keep the order they had in the input *)
Theorem C17_mk_stable : forall l t, mk_track (map Timed l) = Ok t ->
  forall k, filter (fun x => st x =? k) t = filter (fun x => st x =? k) l.
Proof. exact mk_stable. Qed.
Print Assumptions C17_mk_stable.

(* ... and that pins the result completely *)
Theorem C17_mk_unique : forall l t t', mk_track (map Timed l) = Ok t ->
  StronglySorted (fun x y => st x <= st y) t' ->
  (forall k, filter (fun x => st x =? k) t' = filter (fun x => st x =? k) l) -> t' = t.
Proof. exact mk_unique. Qed.
Print Assumptions C17_mk_unique.

Theorem C17_mk_rejects_nodt : forall raws,
  (mk_track raws = Err ValueError <-> exists i p, In (Untimed i p) raws) /\
  ((~ exists i p, In (Untimed i p) raws) ->
   exists l, raws = map Timed l /\ mk_track raws = Ok (isort st l)).
Proof. exact mk_rejects_nodt. Qed.
Print Assumptions C17_mk_rejects_nodt.

(* ---------------------------------------------------------------------------------------------
   Every operation.  [run dist merge t0 ops] applies any finite chain of
   add / slice / filter_by_dt / filter_by_time / convolve / filter_impossible_journeys. *)
Theorem C17_ops_sorted : forall dist merge raws ops t0 t,
  mk_track raws = Ok t0 -> run dist merge t0 ops = Ok t ->
  StronglySorted (fun x y => st x <= st y) t.
Proof. exact ops_sorted. Qed.
Print Assumptions C17_ops_sorted.

(* concatenation: chronological, a permutation of both operands, and among equal starts the
   left operand's shapes come first, each side in its own order *)
Theorem C17_add_spec : forall t u,
  StronglySorted (fun x y => st x <= st y) (add t u) /\ Permutation (add t u) (t ++ u) /\
  forall k, filter (fun x => st x =? k) (add t u) =
            filter (fun x => st x =? k) t ++ filter (fun x => st x =? k) u.
Proof. exact add_spec. Qed.
Print Assumptions C17_add_spec.

(* slices, time filters and the speed filter only select: the result is a sublist (same
   relative order) of the track they are applied to.  [sublist] is defined in CollP2.v. *)
Theorem C17_selecting_sublist : forall dist merge t o t',
  StronglySorted (fun x y => st x <= st y) t ->
  (match o with OAdd _ | OAddOther | OConvolve => false | _ => true end) = true ->
  apply_op dist merge t o = Ok t' -> sublist t' t.
Proof. exact selecting_sublist. Qed.
Print Assumptions C17_selecting_sublist.

(* ---------------------------------------------------------------------------------------------
   Slicing: exactly the shapes with a <= start and end < b, None = unbounded on that side, for
   every chronological track including the empty one (D30 repaired); never raises. *)
Theorem C17_slice_spec : forall t a b,
  StronglySorted (fun x y => st x <= st y) t ->
  slice t a b = Ok (filter (fun x => match a with Some a' => a' <=? st x | None => true end &&
                                     match b with Some b' => en x <? b' | None => true end) t).
Proof. exact slice_spec. Qed.
Print Assumptions C17_slice_spec.

Theorem C17_slice_exact : forall t a b out,
  StronglySorted (fun x y => st x <= st y) t -> slice t a b = Ok out ->
  (forall x, In x out <->
     In x t /\ match a with Some a' => a' <= st x | None => True end
            /\ match b with Some b' => en x < b' | None => True end)
  /\ sublist out t /\ StronglySorted (fun x y => st x <= st y) out.
Proof. exact slice_exact. Qed.
Print Assumptions C17_slice_exact.

Theorem C17_slice_total : forall t a b, exists out, slice t a b = Ok out.
Proof. exact slice_total. Qed.
Print Assumptions C17_slice_total.

(* D18 (repaired): with the old default stop (end of the last-STARTING shape + 1 s) an
   open-ended slice drops a shape of the track *)
Theorem C17_slice_open_old_refuted : exists t x hi,
  StronglySorted (fun x y => st x <= st y) t /\ In x t /\
  slice_hi_old t None = Ok hi /\ slice_pred (st x) hi x = false.
Proof. exact slice_open_old_refuted. Qed.
Print Assumptions C17_slice_open_old_refuted.

(* ---------------------------------------------------------------------------------------------
   Speed filter.  [reach dist v p x] : st p < st x /\ dist (pl p) (pl x) <= v * seconds between
   the starts.  [greedy dist v p l k] (CollP2.v) : scanning l with p the previously KEPT shape,
   x is kept iff [reach v p x] and then becomes the previously kept shape; k = kept shapes. *)
Theorem C17_fij_spec : forall dist v x l,
  StronglySorted (fun x y => st x <= st y) (x :: l) ->
  exists k, fij dist (x :: l) v = Ok (x :: k) /\ greedy dist v x l k /\
            (forall k', greedy dist v x l k' -> k' = k) /\ sublist (x :: k) (x :: l).
Proof. exact fij_spec. Qed.
Print Assumptions C17_fij_spec.

Theorem C17_reach_def : forall dist v p x,
  reach dist v p x <->
  st p < st x /\ (dist (pl p) (pl x) <= v * (inject_Z (st x - st p) / inject_Z 1000000))%Q.
Proof. exact (fun dist v p x => iff_refl _). Qed.
Print Assumptions C17_reach_def.

Theorem C17_greedy_inversion : forall dist v p x l k,
  greedy dist v p (x :: l) k <->
  (reach dist v p x /\ exists k', k = x :: k' /\ greedy dist v x l k') \/
  (~ reach dist v p x /\ greedy dist v p l k).
Proof. exact greedy_inversion. Qed.
Print Assumptions C17_greedy_inversion.

(* consecutive kept shapes are reachable from one another *)
Theorem C17_fij_chain : forall dist v p l k, greedy dist v p l k -> chain_ok dist v p k.
Proof. exact greedy_chain. Qed.
Print Assumptions C17_fij_chain.

Theorem C17_fij_empty : forall dist v, fij dist [] v = Err IndexError.
Proof. exact fij_empty. Qed.
Print Assumptions C17_fij_empty.

(* ---------------------------------------------------------------------------------------------
   Duplicate timestamps (timestamp = (start, end)): exactly one shape per distinct timestamp,
   same set of timestamps, shapes alone with their timestamp kept as they are, every other
   output shape is the created ping of its group (first member's time, merged payload). *)
Theorem C17_convolve_spec : forall merge t,
  let out := convolve merge t in
  StronglySorted (fun x y => st x <= st y) out /\
  NoDup (map (fun x => (st x, en x)) out) /\
  (forall d, In d (map (fun x => (st x, en x)) t) <-> In d (map (fun x => (st x, en x)) out)) /\
  (forall x, In x t -> filter (same_dt x) t = [x] -> In x out) /\
  (forall y, In y out ->
     (In y t /\ filter (same_dt y) t = [y]) \/
     (exists f, In f t /\ (2 <= length (filter (same_dt f) t))%nat /\
        y = mkitem (newid (id f)) (st f) (en f) (ost f) (oen f)
                   (merge (map pl (filter (same_dt f) t))))).
Proof. exact convolve_spec. Qed.
Print Assumptions C17_convolve_spec.

Theorem C17_has_duplicate_timestamps_spec : forall t,
  has_dup t = false <-> NoDup (map (fun x => (st x, en x)) t).
Proof. exact has_dup_spec. Qed.
Print Assumptions C17_has_duplicate_timestamps_spec.

(* ---------------------------------------------------------------------------------------------
   Time filters on a Track *)
Theorem C17_filter_by_dt_spec : forall t d, StronglySorted (fun x y => st x <= st y) t ->
  filter_by_dt t d = filter (fun x => (st x =? d) && (en x =? d)) t.
Proof. exact filter_by_dt_spec. Qed.
Print Assumptions C17_filter_by_dt_spec.

Theorem C17_filter_by_iv_spec : forall t a b, StronglySorted (fun x y => st x <= st y) t ->
  filter_by_iv t a b = filter (iv_pred a b) t.
Proof. exact filter_by_iv_spec. Qed.
Print Assumptions C17_filter_by_iv_spec.

(* ... whose per-shape predicate is "the two time sets of C06 share an instant" *)
Theorem C17_iv_pred_spec : forall a b x, a <= b -> st x <= en x ->
  (iv_pred a b x = true <->
   exists t : Q, TimeP.mem t (TimeM.mkiv a b) /\ TimeP.mem t (TimeM.mkiv (st x) (en x))).
Proof. exact iv_pred_spec. Qed.
Print Assumptions C17_iv_pred_spec.

Theorem C17_filter_by_time_spec : forall t s e, StronglySorted (fun x y => st x <= st y) t ->
  filter_by_time t s e = filter (tod_pred s e) t.
Proof. exact filter_by_time_spec. Qed.
Print Assumptions C17_filter_by_time_spec.

Theorem C17_tod_pred_spec : forall s e x, s <= e -> tod (st x) (ost x) <= tod (en x) (oen x) ->
  (tod_pred s e x = true <->
   exists u, s <= u <= e /\ tod (st x) (ost x) <= u <= tod (en x) (oen x)).
Proof. exact tod_pred_spec. Qed.
Print Assumptions C17_tod_pred_spec.

(* ---------------------------------------------------------------------------------------------
   Non-vacuity: a concrete track on which every hypothesis above is met and every operation
   does something.  Shapes: 0 = [0 h, 100 h) at position 0; 1 = {1 h} at 0; 2 = {1 h} at 1;
   3 = {2 h} at 1; distance 1000 m between positions 0 and 1; input order 3,1,0,2. *)
Definition ex_h := 3600000000.
Definition ex_dist (a b : Z) : Q := if a =? b then 0%Q else inject_Z 1000.
Definition ex_items :=
  [mkitem 3 (2 * ex_h) (2 * ex_h) 0 0 1; mkitem 1 ex_h ex_h 0 0 0;
   mkitem 0 0 (100 * ex_h) 0 0 0; mkitem 2 ex_h ex_h 0 0 1].
Definition ex_track := isort st ex_items.

Example C17_nonvacuous_mk :
  mk_track (map Timed ex_items) = Ok ex_track /\ map id ex_track = [0; 1; 2; 3] /\
  mk_track (Untimed 9 0 :: map Timed ex_items) = Err ValueError.
Proof. vm_compute. repeat split. Qed.

Example C17_nonvacuous_ops :
  (* open-ended slice keeps the long early shape (D18) *)
  option_map (map id) (match slice ex_track (Some 0) None with Ok t => Some t | _ => None end)
    = Some [0; 1; 2; 3] /\
  option_map (map id) (match slice ex_track (Some ex_h) (Some (2 * ex_h)) with Ok t => Some t | _ => None end)
    = Some [1; 2] /\
  (* 1000 m in 1 h is 0.2777.. m/s: at 0.25 m/s shape 2 (same time as 1) and 3 are dropped *)
  option_map (map id) (match fij ex_dist ex_track (1 # 4) with Ok t => Some t | _ => None end)
    = Some [0; 1] /\
  option_map (map id) (match fij ex_dist ex_track (1 # 2) with Ok t => Some t | _ => None end)
    = Some [0; 1; 3] /\
  map id (convolve (fun _ => 7) ex_track) = [0; -2; 3] /\
  map id (filter_by_iv ex_track ex_h (2 * ex_h)) = [0; 1; 2] /\
  map id (add ex_track [mkitem 4 ex_h ex_h 0 0 0]) = [0; 1; 2; 4; 3].
Proof. vm_compute. repeat split. Qed.
