(* C16 — queries are pure; observations stay coherent under in-place updates.
   This file holds only statements closed by [exact] and their Print Assumptions (printed after
   the Section is closed, so that the geometry functions appear as universally quantified
   arguments, not as assumptions). *)
From GV Require Import Prelude StateM StateP.
Open Scope Z_scope.

Section C16.
  (* geometry and everything computed from it: arbitrary *)
  Variables G B C A S J W : Type.
  Variable bounds_of : kind -> G -> B.
  Variable centroid_of : kind -> G -> C.
  Variable area_of : kind -> G -> list G -> A.
  Variable shapely_of : kind -> G -> list G -> S.
  Variable gj_of : kind -> G -> list G -> J.
  Variable wkt_of : kind -> G -> list G -> W.
  Variable poly_geom : kind -> G -> G.
  Variable poly_holes : kind -> G -> list G -> list G.
  Local Notation stepf :=
    (step G B C A S J W bounds_of centroid_of area_of shapely_of gj_of wkt_of poly_geom poly_holes).
  Local Notation runf :=
    (run G B C A S J W bounds_of centroid_of area_of shapely_of gj_of wkt_of poly_geom poly_holes).
  Local Notation absf := (abs G B C A S).
  Local Notation freshf := (fresh G B C A S).
  Local Notation copyf := (copy G B C A S).
  Local Notation coh := (Coherent G B C A S bounds_of centroid_of area_of shapely_of).

  (* reads and to_polygon (after D17) never change dt, properties, holes or geometry *)
Theorem C16_read_pure : forall s o, is_read o = true -> absf (fst (stepf s o)) = absf s.
Proof. exact (read_pure G B C A S J W bounds_of centroid_of area_of shapely_of gj_of wkt_of poly_geom poly_holes). Qed.

  (* an operation that raises (buffer_dt without dt, a buffer that inverts the interval, a missing
     attribute) changes nothing, caches included *)
Theorem C16_err_untouched : forall s o e, snd (stepf s o) = Err e -> fst (stepf s o) = s.
Proof. exact (err_untouched G B C A S J W bounds_of centroid_of area_of shapely_of gj_of wkt_of poly_geom poly_holes). Qed.

Theorem C16_read_repeat : forall s r,
    snd (stepf (fst (stepf s (Read r))) (Read r)) = snd (stepf s (Read r)).
Proof. exact (read_repeat G B C A S J W bounds_of centroid_of area_of shapely_of gj_of wkt_of poly_geom poly_holes). Qed.

  (* every filled cache holds the value of the current geometry: invariant of every operation,
     for the receiver and for any newly returned object *)
Theorem C16_coherent_inv : forall s o, coh s ->
    coh (fst (stepf s o)) /\
    (forall s' ob, snd (stepf s o) = Ok (RNew _ _ _ _ _ s', ob) -> coh s').
Proof. exact (coherent_inv G B C A S J W bounds_of centroid_of area_of shapely_of gj_of wkt_of poly_geom poly_holes). Qed.

  (* after ANY finite history from a newly built shape, every observation (cached ones and volume
     included) is that of a newly built shape with the same geometry, time and properties *)
Theorem C16_obs_as_fresh : forall a ops r,
    let s := runf ops (freshf a) in
    snd (stepf s (Read r)) = snd (stepf (freshf (absf s)) (Read r)).
Proof. exact (obs_as_fresh G B C A S J W bounds_of centroid_of area_of shapely_of gj_of wkt_of poly_geom poly_holes). Qed.

  (* inplace=False leaves the receiver untouched and returns the in-place result on a copy *)
Theorem C16_not_inplace_untouched : forall s o, ip_of o = Some false ->
    fst (stepf s o) = s /\
    match snd (stepf s o) with
    | Ok (RNew _ _ _ _ _ s', _) =>
        s' = fst (stepf (copyf s) (force_ip o)) /\
        exists ob, snd (stepf (copyf s) (force_ip o)) = Ok (RSame _ _ _ _ _, ob)
    | Ok _ => False
    | Err e => snd (stepf (copyf s) (force_ip o)) = Err e
    end.
Proof. exact (not_inplace_untouched G B C A S J W bounds_of centroid_of area_of shapely_of gj_of wkt_of poly_geom poly_holes). Qed.

Theorem C16_inplace_returns_self : forall s o r ob, ip_of o = Some true ->
    snd (stepf s o) = Ok (r, ob) -> r = RSame _ _ _ _ _.
Proof. exact (inplace_returns_self G B C A S J W bounds_of centroid_of area_of shapely_of gj_of wkt_of poly_geom poly_holes). Qed.

  (* what the in-place updates do to the observable state *)
Theorem C16_update_spec : forall s,
    (forall d, absf (fst (stepf s (SetDt d true))) = (kd _ _ _ _ _ s, geom _ _ _ _ _ s, holes _ _ _ _ _ s, d, props _ _ _ _ _ s)) /\
    (absf (fst (stepf s (StripDt true))) = (kd _ _ _ _ _ s, geom _ _ _ _ _ s, holes _ _ _ _ _ s, None, props _ _ _ _ _ s)) /\
    (forall k v, absf (fst (stepf s (SetProp k v true))) =
                 (kd _ _ _ _ _ s, geom _ _ _ _ _ s, holes _ _ _ _ _ s, dt _ _ _ _ _ s, set_assoc k v (props _ _ _ _ _ s))) /\
    (forall x a b, dt _ _ _ _ _ s = Some (a, b) -> a - x <= b + x ->
                   absf (fst (stepf s (BufferDt x true))) =
                   (kd _ _ _ _ _ s, geom _ _ _ _ _ s, holes _ _ _ _ _ s, Some (a - x, b + x), props _ _ _ _ _ s)) /\
    (forall x ip, dt _ _ _ _ _ s = None -> stepf s (BufferDt x ip) = (s, Err ValueError)).
Proof. exact (update_spec G B C A S J W bounds_of centroid_of area_of shapely_of gj_of wkt_of poly_geom poly_holes). Qed.
End C16.

Theorem C16_dict_assign : forall k v p k',
  get k' (set_assoc k v p) = if k' =? k then Some v else get k' p.
Proof. exact get_set_assoc. Qed.

Print Assumptions C16_read_pure.
Print Assumptions C16_err_untouched.
Print Assumptions C16_read_repeat.
Print Assumptions C16_coherent_inv.
Print Assumptions C16_obs_as_fresh.
Print Assumptions C16_not_inplace_untouched.
Print Assumptions C16_inplace_returns_self.
Print Assumptions C16_update_spec.
Print Assumptions C16_dict_assign.

(* ------------------------------------------------------------------ non-vacuity *)
(* a concrete history on a circle with one hole: area is cached, then the time bounds are widened in
   place; the volume read afterwards uses the new elapsed time (D17), as a fresh object's would *)
Definition zstep := step Z Z Z Z Z Z Z (fun _ g => g) (fun _ g => g + 1) (fun _ g hs => g + 2)
                         (fun _ g _ => g + 3) (fun _ g _ => g + 4) (fun _ g _ => g + 5) (fun _ g => g + 6) (fun _ _ hs => hs).
Definition zrun := run Z Z Z Z Z Z Z (fun _ g => g) (fun _ g => g + 1) (fun _ g hs => g + 2)
                       (fun _ g _ => g + 3) (fun _ g _ => g + 4) (fun _ g _ => g + 5) (fun _ g => g + 6) (fun _ _ hs => hs).
Example C16_nonvacuous_history :
  let s0 := fresh Z Z Z Z Z (KCircle, 10, [7], Some (0, 100), [(1, 5)]) in
  let s := zrun [Read RVolume; BufferDt 50 true; SetProp 2 9 true; SetDt None false; Read RBounds] s0 in
  abs Z Z Z Z Z s = (KCircle, 10, [7], Some (-50, 150), [(1, 5); (2, 9)]) /\
  c_area Z Z Z Z Z s = Some 12 /\ c_bounds Z Z Z Z Z s = Some 10 /\
  snd (zstep s (Read RVolume)) = Ok (RNoShape Z Z Z Z Z, OVolume Z Z Z Z Z Z (Some (12, 200))) /\
  ip_of (SetDt None false) = Some false /\ is_read ToPolygon = true /\
  snd (zstep s (BufferDt (-150) true)) = Err ValueError.
Proof. vm_compute. repeat split; reflexivity. Qed.
