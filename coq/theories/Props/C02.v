(* C02 -- pairwise spatial predicates.  Only statements closed by [exact] and their
   Print Assumptions. *)
From GV Require Import Prelude TimeM GeomM SweepM PairM SweepP.
Open Scope Z_scope.

(* The sweep of do_edges_intersect answers exactly "some a-edge hits some b-edge", for every
   segment test that is symmetric, blind to the direction of a segment and true only of
   segments whose latitude ranges overlap; in particular it never raises. *)
Theorem C02_sweep_brute_generic : forall hit : sg -> sg -> bool,
  (forall a b, hit a b = hit b a) ->
  (forall a b, hit (swap_sg a) b = hit a b) ->
  (forall a b, hit a b = true -> Z.max (lat_lo a) (lat_lo b) <= Z.min (lat_hi a) (lat_hi b)) ->
  forall ea eb, sweep hit ea eb = Ok (brute hit ea eb).
Proof. exact sweep_brute. Qed.
Print Assumptions C02_sweep_brute_generic.
