(* C02 -- pairwise spatial predicates: equal to edge-pair truth, symmetric, contains => intersects,
   time-free, never raise.  Only statements closed by [exact] and their Print Assumptions.
   Models: SweepM.v (do_edges_intersect), PairM.v (intersects_shape / contains_shape), GeomM.v
   (find_line_intersection, point membership; C01).  [w] is the west end of the
   point-in-polygon ray (-180 times the coordinate scale).

   Domain: exact arithmetic over Z (DESIGN section 3: the float code takes the same branches on
   the integer grids the correspondence uses; the 1e-10 snapping is modelled, not verified);
   ensure_edge_bounds is the identity (no edge spans more than 180 degrees of longitude).

   NOT claimed (DESIGN C02 "Not proved"): that the answer equals the planar set truth in general;
   the first-vertex fallback is not shown independent of the vertex order.  The D5 theorems at the
   end refute the set-truth reading on concrete inputs (known findings D5a/b/c). *)
From GV Require Import Prelude TimeM GeomM SweepM PairM SweepP PairP.
Open Scope Z_scope.

(* ---- the sweep ---------------------------------------------------------------------------- *)

(* For every segment test that is symmetric, blind to the direction of a segment and true only
   of segments whose latitude ranges overlap, the sweep answers exactly "some a-edge hits some
   b-edge" -- for all edge lists, duplicates / retraced / horizontal / zero-length included. *)
Theorem C02_sweep_brute_generic : forall hit : sg -> sg -> bool,
  (forall a b, hit a b = hit b a) ->
  (forall a b, hit (swap_sg a) b = hit a b) ->
  (forall a b, hit a b = true -> Z.max (lat_lo a) (lat_lo b) <= Z.min (lat_hi a) (lat_hi b)) ->
  forall ea eb, sweep hit ea eb = Ok (brute hit ea eb).
Proof. exact sweep_brute. Qed.
Print Assumptions C02_sweep_brute_generic.

(* the three hypotheses hold of the model of find_line_intersection *)
Theorem C02_hit_sym : forall a b, hit a b = hit b a.
Proof. exact hit_sym. Qed.
Print Assumptions C02_hit_sym.

Theorem C02_hit_direction_free : forall a b, hit (swap_sg a) b = hit a b.
Proof. exact hit_swap. Qed.
Print Assumptions C02_hit_direction_free.

Theorem C02_hit_lat_overlap : forall a b, hit a b = true ->
  Z.max (lat_lo a) (lat_lo b) <= Z.min (lat_hi a) (lat_hi b).
Proof. exact hit_lat. Qed.
Print Assumptions C02_hit_lat_overlap.

(* what a hit means, independently of the code's formulas: the two closed segments are not
   parallel and share a point (rational coordinates xn/dv, yn/dv); collinear overlaps do not
   count, as documented *)
Theorem C02_hit_spec : forall s1 s2,
  hit s1 s2 = true <->
  nonparallel s1 s2 /\
  exists xn yn dv, 0 < dv /\ on_seg_q s1 xn yn dv /\ on_seg_q s2 xn yn dv.
Proof. exact hit_spec. Qed.
Print Assumptions C02_hit_spec.

(* hence, for do_edges_intersect as the library runs it: *)
Theorem C02_sweep_brute : forall ea eb,
  sweep hit ea eb = Ok (existsb (fun a => existsb (fun b => hit a b) eb) ea).
Proof. exact sweep_hit_brute. Qed.
Print Assumptions C02_sweep_brute.

(* ... in planar terms: True exactly when an a-edge and a b-edge are not parallel and share a point *)
Theorem C02_sweep_meaning : forall ea eb,
  sweep hit ea eb = Ok true <->
  exists a b, In a ea /\ In b eb /\ nonparallel a b /\
    exists xn yn dv, 0 < dv /\ on_seg_q a xn yn dv /\ on_seg_q b xn yn dv.
Proof. exact sweep_meaning. Qed.
Print Assumptions C02_sweep_meaning.

Theorem C02_sweep_never_err : forall ea eb, exists r, sweep hit ea eb = Ok r.
Proof. exact sweep_hit_never_err. Qed.
Print Assumptions C02_sweep_never_err.

Theorem C02_sweep_sym : forall ea eb, sweep hit ea eb = sweep hit eb ea.
Proof. exact sweep_hit_sym. Qed.
Print Assumptions C02_sweep_sym.

(* the event sort is a sorted permutation and leaves a sorted list alone (stable) *)
Theorem C02_sort_spec : forall sf l,
  Permutation.Permutation (sort_events sf l) l /\
  Sorted.StronglySorted (ev_le sf) (sort_events sf l) /\
  (Sorted.StronglySorted (ev_le sf) l -> sort_events sf l = l).
Proof. exact (fun sf l => conj (sort_perm sf l) (conj (sort_sorted sf l) (sort_id_on_sorted sf l))). Qed.
Print Assumptions C02_sort_spec.

(* ... and stable: events that compare equal (same latitude, same start/end flag) keep their
   input order, as Python's list.sort guarantees *)
Theorem C02_sort_stable : forall sf k l,
  filter (ev_equiv sf k) (sort_events sf l) = filter (ev_equiv sf k) l.
Proof. exact sort_stable. Qed.
Print Assumptions C02_sort_stable.

(* ---- shapes: equal to edge-pair truth ------------------------------------------------------- *)

(* polygon / box / linestring against polygon / box / linestring:
     some edge pair hits, or the first vertex of B is in A, or the first vertex of A is in B *)
Theorem C02_intersects_edge_truth : forall w a b,
  valid a -> valid b -> is_pt a = false -> is_pt b = false ->
  intersects_shape w a b =
    Ok (edge_part a b || contains_coordinate w a (first_pt b) || contains_coordinate w b (first_pt a)).
Proof. exact intersects_edge_truth. Qed.
Print Assumptions C02_intersects_edge_truth.

(* the edge part, in planar terms *)
Theorem C02_edge_part_meaning : forall a b,
  edge_part a b = true <->
  exists ea eb, In ea (all_edges a) /\ In eb (all_edges b) /\ nonparallel ea eb /\
    exists xn yn dv, 0 < dv /\ on_seg_q ea xn yn dv /\ on_seg_q eb xn yn dv.
Proof. exact edge_part_meaning. Qed.
Print Assumptions C02_edge_part_meaning.

(* polygon / box receiver: no edge pair hits and the first vertex of B is in A *)
Theorem C02_contains_edge_truth : forall w a b,
  valid b -> is_area a = true -> is_pt b = false ->
  contains_shape w a b = Ok (negb (edge_part a b) && contains_coordinate w a (first_pt b)).
Proof. exact contains_edge_truth. Qed.
Print Assumptions C02_contains_edge_truth.

(* soundness half of "equals planar set truth": a True answer always comes with a point
   (rational coordinates) that belongs to both shapes' closed sets -- the point itself / a
   segment of the path / a ring edge or a point accepted by the library's membership test (C01).
   The converse is false of the code (D5, below) and otherwise not claimed. *)
Theorem C02_intersects_sound : forall w a b, valid a -> valid b ->
  intersects_shape w a b = Ok true ->
  exists xn yn dv, 0 < dv /\ inset w a xn yn dv /\ inset w b xn yn dv.
Proof. exact intersects_sound. Qed.
Print Assumptions C02_intersects_sound.

(* with a point, every test is C01's membership / vertex membership / equality *)
Theorem C02_point_rel_spec : forall w,
  (forall o hs d p d', intersects_shape w (Poly o hs d) (Pt p d') = Ok (poly_contains w o hs p) /\
                       intersects_shape w (Pt p d') (Poly o hs d) = Ok (poly_contains w o hs p) /\
                       contains_shape w (Poly o hs d) (Pt p d') = Ok (poly_contains w o hs p)) /\
  (forall nw se hs d p d', intersects_shape w (Box nw se hs d) (Pt p d') = Ok (box_contains w nw se hs p) /\
                           intersects_shape w (Pt p d') (Box nw se hs d) = Ok (box_contains w nw se hs p) /\
                           contains_shape w (Box nw se hs d) (Pt p d') = Ok (box_contains w nw se hs p)) /\
  (forall vs d p d', (intersects_shape w (Ln vs d) (Pt p d') = Ok true <-> In p vs) /\
                     (intersects_shape w (Pt p d') (Ln vs d) = Ok true <-> In p vs) /\
                     (contains_shape w (Ln vs d) (Pt p d') = Ok true <-> In p vs)) /\
  (forall p d q d', (intersects_shape w (Pt p d) (Pt q d') = Ok true <-> p = q) /\
                    (contains_shape w (Pt p d) (Pt q d') = Ok true <-> p = q)).
Proof. exact point_rel_spec. Qed.
Print Assumptions C02_point_rel_spec.

(* ---- the laws -------------------------------------------------------------------------------- *)

(* symmetric, for every ordered pair of kinds (16 combinations in one statement) *)
Theorem C02_intersects_sym : forall w a b, valid a -> valid b ->
  intersects_shape w a b = intersects_shape w b a.
Proof. exact intersects_sym. Qed.
Print Assumptions C02_intersects_sym.

Theorem C02_contains_imp_intersects : forall w a b, valid b ->
  contains_shape w a b = Ok true -> intersects_shape w a b = Ok true.
Proof. exact contains_imp_intersects. Qed.
Print Assumptions C02_contains_imp_intersects.

(* the time bounds carried by the shapes are never read (after repair D4 every `in` on these
   paths receives a Coordinate, for which BaseShapeProtocol.contains applies no time gate) *)
Theorem C02_spatial_time_free : forall w a b d1 d2,
  intersects_shape w (with_dt d1 a) (with_dt d2 b) = intersects_shape w a b /\
  contains_shape w (with_dt d1 a) (with_dt d2 b) = contains_shape w a b.
Proof. exact spatial_time_free. Qed.
Print Assumptions C02_spatial_time_free.

(* no exception for valid shapes (paths with >= 2 vertices, retracing or not; outlines with >= 2) *)
Theorem C02_never_err : forall w a b, valid a -> valid b ->
  exists r1 r2, intersects_shape w a b = Ok r1 /\ contains_shape w a b = Ok r2.
Proof. exact never_err. Qed.
Print Assumptions C02_never_err.

(* ---- linestring containment -------------------------------------------------------------------- *)
Theorem C02_sublist_spec : forall a b, is_sub_list a b = true <-> exists p s, b = p ++ a ++ s.
Proof. exact sublist_spec. Qed.
Print Assumptions C02_sublist_spec.

Theorem C02_line_contains_spec : forall w vs d us d',
  contains_shape w (Ln vs d) (Ln us d') = Ok true <-> exists p s, vs = p ++ us ++ s.
Proof. exact line_contains_spec. Qed.
Print Assumptions C02_line_contains_spec.

(* ---- vertex order: proved for the edge-crossing disjunct only ---------------------------------- *)

(* the edge part is a function of the undirected edge sets of the two shapes *)
Theorem C02_edge_part_equiv : forall a a' b b',
  edge_equiv (all_edges a) (all_edges a') -> edge_equiv (all_edges b) (all_edges b') ->
  edge_part a b = edge_part a' b' /\
  edges_cross (edge_rings a) (edge_rings b) = edges_cross (edge_rings a') (edge_rings b').
Proof. exact edge_part_equiv. Qed.
Print Assumptions C02_edge_part_equiv.

(* in particular it is unchanged when the closed outline handed to the GeoPolygon constructor is
   reversed or started at another vertex, any number of times, on either side of the test *)
Theorem C02_edge_part_order_free : forall c c' hs d b,
  closed_ring c -> reorder c c' ->
  edges_cross (edge_rings (mk_poly c' hs d)) (edge_rings b) =
    edges_cross (edge_rings (mk_poly c hs d)) (edge_rings b) /\
  edges_cross (edge_rings b) (edge_rings (mk_poly c' hs d)) =
    edges_cross (edge_rings b) (edge_rings (mk_poly c hs d)).
Proof. exact edge_part_order_free. Qed.
Print Assumptions C02_edge_part_order_free.

(* ... and NOT for the first-vertex fallback: reversing a path changes the answer for two
   collinear paths that meet end to end (new finding, reported) *)
Theorem C02_line_reversal_refuted :
  exists vs us,
    intersects_shape (-180) (Ln vs None) (Ln us None) = Ok true /\
    intersects_shape (-180) (Ln vs None) (Ln (rev us) None) = Ok false.
Proof. exact line_reversal_refuted. Qed.
Print Assumptions C02_line_reversal_refuted.

(* ---- known findings D5: the planar-set reading is false of the code ----------------------------- *)
Theorem C02_intersects_boundary_point_refuted :
  exists o p e, In e (all_edges (mk_poly o [] None)) /\ on_segment p e /\
    intersects_shape (-180) (mk_poly o [] None) (Pt p None) = Ok false /\
    intersects_shape (-180) (Pt p None) (mk_poly o [] None) = Ok false.
Proof. exact intersects_boundary_point_refuted. Qed.
Print Assumptions C02_intersects_boundary_point_refuted.

Theorem C02_intersects_segment_interior_point_refuted :
  exists vs p e, In e (all_edges (Ln vs None)) /\ on_segment p e /\ p <> fst e /\ p <> snd e /\
    intersects_shape (-180) (Ln vs None) (Pt p None) = Ok false /\
    intersects_shape (-180) (Pt p None) (Ln vs None) = Ok false.
Proof. exact intersects_segment_interior_point_refuted. Qed.
Print Assumptions C02_intersects_segment_interior_point_refuted.

Theorem C02_contains_around_hole_refuted :
  exists a b q, valid a /\ valid b /\
    contains_shape (-180) a b = Ok true /\
    contains_coordinate (-180) b q = true /\ contains_coordinate (-180) a q = false.
Proof. exact contains_around_hole_refuted. Qed.
Print Assumptions C02_contains_around_hole_refuted.

(* ---- the repaired lines matter: the pre-repair variants of the model are refuted ----------------- *)
Theorem C02_sweep_pre_D2_refuted :
  exists ea eb, brute hit ea eb = true /\
    sweep_gen hit false false ea eb = Ok false /\ sweep_gen hit false false eb ea = Ok true.
Proof. exact sweep_pre_D2_refuted. Qed.
Print Assumptions C02_sweep_pre_D2_refuted.

Theorem C02_sweep_pre_D3_refuted : exists ea eb, sweep_gen hit true true ea eb = Err KeyError.
Proof. exact sweep_pre_D3_refuted. Qed.
Print Assumptions C02_sweep_pre_D3_refuted.

Theorem C02_time_free_pre_D4_refuted :
  exists a b d1 d2,
    intersects_shape_gen (-180) false (with_dt d1 a) (with_dt d2 b) <>
    intersects_shape_gen (-180) false a b.
Proof. exact time_free_pre_D4_refuted. Qed.
Print Assumptions C02_time_free_pre_D4_refuted.

(* ---- non-vacuity: the hypotheses are met by concrete non-trivial values ------------------------- *)
Example C02_nonvacuous :
  let A := mk_poly (sq 0 0 8 8) [mk_hpoly (sq 2 2 6 6)] (Some (mkiv 0 10)) in
  let B := Ln [(3, 3); (4, 4); (3, 3)] None in                   (* out-and-back path *)
  let C := mk_poly (sq 4 4 12 12) [] (Some (mkiv 5 15)) in
  valid A /\ valid B /\ valid C /\ is_pt A = false /\ is_area A = true /\
  intersects_shape (-180) A C = Ok true /\ edge_part A C = true /\
  intersects_shape (-180) A B = Ok false /\ contains_shape (-180) A B = Ok false /\
  contains_shape (-180) A (Ln [(1, 1); (1, 7)] None) = Ok true /\
  closed_ring (sq 0 0 8 8 ++ [(0, 0)]) /\
  reorder (sq 0 0 8 8 ++ [(0, 0)]) [(8, 0); (8, 8); (0, 8); (0, 0); (8, 0)] /\
  sweep hit diamond0 diamond_up = Ok true /\
  is_sub_list [(1, 1); (2, 2)] [(0, 0); (1, 1); (2, 2); (3, 3)] = true.
Proof.
  cbv zeta.
  repeat match goal with |- _ /\ _ => split end;
    try (vm_compute; (reflexivity || lia)).
  - exists (0, 0), [(8, 0); (8, 8); (0, 8)]. reflexivity.
  - change [(8, 0); (8, 8); (0, 8); (0, 0); (8, 0)] with (rot_closed (sq 0 0 8 8 ++ [(0, 0)])).
    apply ro_rot, ro_refl.
Qed.
