(* C12 -- TEMPORARY stub while the proofs are being written; replaced below. *)
From GV Require Import Prelude FloodM.
Theorem C12_stub : forall (A : Type) (l : list A), pop_head l = None -> l = [].
Proof. intros A [|x l]; [reflexivity|discriminate]. Qed.
Print Assumptions C12_stub.
