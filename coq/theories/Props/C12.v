(* C12 — hashing a shape returns exactly the geohash cells it touches.
   Statements about the executable model FloodM (tied to /repo by the correspondence, where the
   per-cell test is the table of the implementation's own answers).  Generic theorems hold for
   EVERY cell type with a correct equality test, EVERY neighbour function, EVERY per-cell test
   and EVERY order in which queue.pop() hands out elements; no bound on sizes.
   NOT proved (DESIGN C12): that the cells touched by a connected planar shape are 8-connected,
   and that the per-cell box test is geometric truth -- hence [hash_exact] is PARTIAL.
   The H3 clauses are covered by no theorem.
   This file holds only statements closed by [exact] and their Print Assumptions. *)
From Coq Require Import QArith.
From GV Require Import Prelude GeohashM GeohashP2 FloodM FloodP FloodP2 FloodP3 FloodP4.
Open Scope nat_scope.

Definition pop_ok {cell} (pop : list cell -> option (cell * list cell)) : Prop :=
  (forall q, pop q = None -> q = []) /\
  (forall q x q', pop q = Some (x, q') ->
     In x q /\ (forall y, In y q -> y = x \/ In y q') /\ (forall y, In y q' -> In y q) /\
     length q' < length q).

(* the flood fill returns EXACTLY the cells reachable from the start cell through touching
   cells along the neighbour function (sound and complete w.r.t. reachability), as a
   duplicate-free collection, for every pop order *)
Theorem C12_flood_result : forall cell ceqb, (forall a b : cell, ceqb a b = true <-> a = b) ->
  forall nbr touch pop, pop_ok pop -> forall start fuel r,
  flood cell ceqb nbr touch pop start fuel = Some r ->
  (forall x, In x r <-> reach cell nbr touch start x) /\ NoDup r.
Proof. intros cell ceqb E nbr touch pop [P1 P2]. exact (flood_result cell ceqb E nbr touch pop P1 P2). Qed.
Print Assumptions C12_flood_result.

(* no cell disjoint from the shape: every returned cell is the start cell or passes the test *)
Theorem C12_flood_sound : forall cell ceqb, (forall a b : cell, ceqb a b = true <-> a = b) ->
  forall nbr touch pop, pop_ok pop -> forall start fuel r c,
  flood cell ceqb nbr touch pop start fuel = Some r -> In c r -> c = start \/ touch c = true.
Proof. intros cell ceqb E nbr touch pop [P1 P2]. exact (flood_sound cell ceqb E nbr touch pop P1 P2). Qed.
Print Assumptions C12_flood_sound.

(* completeness and termination: with fuel above the size of any finite universe that contains
   the start cell and is closed under the neighbour function, the loop ends and returns every
   reachable cell *)
Theorem C12_flood_complete : forall cell ceqb, (forall a b : cell, ceqb a b = true <-> a = b) ->
  forall nbr touch pop, pop_ok pop -> forall U start fuel,
  In start U -> (forall c, In c U -> forall n, In n (nbr c) -> In n U) ->
  length U + 2 <= fuel ->
  exists r, flood cell ceqb nbr touch pop start fuel = Some r /\
            forall c, reach cell nbr touch start c -> In c r.
Proof. intros cell ceqb E nbr touch pop [P1 P2]. exact (flood_complete cell ceqb E nbr touch pop P1 P2). Qed.
Print Assumptions C12_flood_complete.

(* PARTIAL: exactly the touched cells, IF the touched cells are connected to the start cell along
   the neighbour function (geometric fact about connected shapes and the 8-neighbourhood, not
   proved) and the start cell (added untested) is touched *)
Theorem C12_hash_exact_partial : forall cell ceqb, (forall a b : cell, ceqb a b = true <-> a = b) ->
  forall nbr touch pop, pop_ok pop -> forall start fuel r,
  (forall c, touch c = true -> reach cell nbr touch start c) -> touch start = true ->
  flood cell ceqb nbr touch pop start fuel = Some r -> forall c, In c r <-> touch c = true.
Proof. intros cell ceqb E nbr touch pop [P1 P2]. exact (hash_exact_partial cell ceqb E nbr touch pop P1 P2). Qed.
Print Assumptions C12_hash_exact_partial.

(* a multi-shape hashes to the union of its members' cells (a duplicate-free collection) *)
Theorem C12_hash_multi_union : forall cell ceqb, (forall a b : cell, ceqb a b = true <-> a = b) ->
  forall hs,
  (forall x, In x (hash_multi cell ceqb hs) <-> exists h, In h hs /\ In x h) /\
  NoDup (hash_multi cell ceqb hs).
Proof.
  intros cell ceqb E hs. split; [intro x; exact (hash_multi_union cell ceqb E (fun _ => []) (fun _ => false) hs x)|].
  exact (hash_multi_NoDup cell ceqb E hs).
Qed.
Print Assumptions C12_hash_multi_union.

(* hash_collection: each cell maps to the aggregation of EXACTLY the shapes whose own hash set
   (a set: no repeats) contains it, in collection order; cells of no shape are absent; the
   result has no repeated key and its keys are the union of the shapes' hash sets *)
Theorem C12_hash_collection_spec : forall cell item val ceqb,
  (forall a b : cell, ceqb a b = true <-> a = b) ->
  forall (keys : item -> list cell) (agg : list item -> val), (forall x, NoDup (keys x)) ->
  forall xs,
  (forall c, dfind ceqb c (hash_collection cell item val ceqb keys agg xs) =
             match filter (fun x => cmem cell ceqb c (keys x)) xs with
             | [] => None
             | l => Some (agg l)
             end) /\
  NoDup (map fst (hash_collection cell item val ceqb keys agg xs)) /\
  (forall c, In c (map fst (hash_collection cell item val ceqb keys agg xs)) <->
             exists x, In x xs /\ In c (keys x)).
Proof.
  intros cell item val ceqb E keys agg N xs. split.
  - intro c. exact (hash_collection_spec cell item val ceqb E keys agg N xs c).
  - exact (hash_collection_keys cell item val ceqb E keys agg N xs).
Qed.
Print Assumptions C12_hash_collection_spec.

(* default agg_fn = len: the value is the number of shapes whose hash set contains the cell *)
Theorem C12_hash_collection_count : forall cell item ceqb,
  (forall a b : cell, ceqb a b = true <-> a = b) ->
  forall (keys : item -> list cell), (forall x, NoDup (keys x)) -> forall xs c n,
  dfind ceqb c (hash_collection cell item nat ceqb keys (@length item) xs) = Some n ->
  n = length (filter (fun x => cmem cell ceqb c (keys x)) xs) /\ 0 < n.
Proof.
  intros cell item ceqb E keys N xs c n H.
  rewrite (hash_collection_spec cell item nat ceqb E keys (@length item) N xs c) in H.
  destruct (filter (fun x => cmem cell ceqb c (keys x)) xs); [discriminate|].
  injection H as <-. cbn. split; [reflexivity|lia].
Qed.
Print Assumptions C12_hash_collection_count.

(* ---- the Niemeyer instance (cells = strings, neighbours and cells through the C11 model) ---- *)
Theorem C12_niemeyer_flood_result : forall c len touch start fuel r,
  niemeyer_flood c len start touch fuel = Some r ->
  (forall x, In x r <-> nreach c touch (encode c start len) x) /\ NoDup r.
Proof. exact niemeyer_flood_result. Qed.
Print Assumptions C12_niemeyer_flood_result.

(* the while-loop of _hash_polygon/_hash_linestring terminates on the model for every per-cell
   test (the strings of the hasher's length over the alphabet are a finite universe closed under
   _get_surrounding): with fuel above that universe's size the result exists and is exactly the
   reachable set *)
Theorem C12_niemeyer_flood_terminates : forall c, cfg_ok c -> forall len touch start fuel,
  length (all_strs (charset c) len) + 2 <= fuel ->
  exists r, niemeyer_flood c len start touch fuel = Some r /\
            forall x, In x r <-> nreach c touch (encode c start len) x.
Proof. exact niemeyer_flood_terminates. Qed.
Print Assumptions C12_niemeyer_flood_terminates.

(* hash_shape(point): the one cell (of the hasher's length) that contains the point *)
Theorem C12_hash_point : forall c len p, cfg_ok c -> in_range c p ->
  exists cell r, niemeyer_point c len p = [cell] /\ length cell = len /\
                 decode c cell = Ok r /\ in_cell p r.
Proof. exact niemeyer_point_spec. Qed.
Print Assumptions C12_hash_point.

(* hash_coordinates: each cell maps to the aggregation of exactly the coordinates encoding to it *)
Theorem C12_hash_coordinates_spec : forall c len val (agg : list (Q * Q) -> val) pts cell,
  dfind str_eqb cell (niemeyer_hash_coordinates c len agg pts) =
  match filter (fun p => str_eqb cell (encode c p len)) pts with
  | [] => None
  | l => Some (agg l)
  end.
Proof. intros c len val. exact (@niemeyer_hash_coordinates_spec c len val). Qed.
Print Assumptions C12_hash_coordinates_spec.

(* ---- non-vacuity ---- *)
(* a 1-D strip of integer cells, neighbours n-1 and n+1, touched cells 3..6, start 4: the flood
   returns 4,3,5,6 -- including 3 and 6 reached only through other cells -- and stops at the
   untouched 2 and 7; the pop order (head) satisfies pop_ok *)
Example C12_nonvacuous_flood :
  pop_ok (@pop_head Z) /\
  flood Z Z.eqb (fun n => [n - 1; n + 1]%Z) (fun n => (3 <=? n) && (n <=? 6))%Z pop_head 4%Z 20
  = Some [4; 3; 5; 6]%Z.
Proof. split; [split; [apply @pop_head_none|apply @pop_head_some]|vm_compute; reflexivity]. Qed.

(* three "shapes" with key sets {1,2}, {2,3}, {2}: cell 2 counts all three, cell 1 only the first *)
Example C12_nonvacuous_collection :
  hash_collection Z (list Z) nat Z.eqb (fun s => s) (@length (list Z)) [[1; 2]; [2; 3]; [2]]%Z
  = [(1%Z, 1); (2%Z, 3); (3%Z, 1)] /\
  hash_multi Z Z.eqb [[1; 2]; [2; 3]; [2]]%Z = [1; 2; 3]%Z.
Proof. split; vm_compute; reflexivity. Qed.

(* the Niemeyer instance computes: base 32, length 2, start (1, 1) in cell "s0"; touched cells
   "s0", "s3", "s9" (a diagonal staircase: each is only a corner-neighbour of the previous one) and
   the far-away "sz": the flood returns s0, s3, s9 -- diagonal contact is followed -- and not the
   touched but unreachable "sz" (so the connectivity hypothesis of hash_exact_partial matters) *)
Example C12_nonvacuous_niemeyer :
  let touch := fun gh => existsb (str_eqb gh) [[115; 48]; [115; 51]; [115; 57]; [115; 122]]%Z in
  encode cfg32 (1, 1)%Q 2 = [115; 48]%Z /\
  niemeyer_flood cfg32 2 (1, 1)%Q touch 40 = Some [[115; 48]; [115; 51]; [115; 57]]%Z /\
  touch [115; 122]%Z = true.
Proof. cbv zeta. split; [vm_compute; reflexivity|]. split; vm_compute; reflexivity. Qed.
