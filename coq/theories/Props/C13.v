(* C13 — WKT round-trips; malformed or wrongly-typed text is rejected.
   This file holds only statements closed by [exact] and their Print Assumptions.
   Token level (Model/WktM.v, first half): a text is its keyword, Z/M marker and nested lists of
   coordinate tuples; numbers are opaque values ASSUMED to print in the class the grammar
   lexes as one number and float() reads back exactly (what str(float) emits: plain decimals or
   exponent form; after repair D33 with any number of integer digits).
   Character level (second half of WktM.v): executable, tied to /repo by the correspondence
   (every single-character corruption of valid texts) and by the translator (the regexes). *)
From Coq Require Import String Ascii.
From GV Require Import Prelude RingM RingP WktM WktP.
Open Scope Z_scope.

(* write then read with the type's own reader gives the very same shape, for every point,
   linestring, polygon with holes and the three multi forms (any number of parts, holes, vertices) *)
Theorem C13_wkt_roundtrip : forall half orc k g t,
  kind_tag g = Some t -> wkt_wf half g -> read half t (write orc k g) = Ok g.
Proof. exact wkt_roundtrip. Qed.
Print Assumptions C13_wkt_roundtrip.

(* the hypothesis is met by every GeoPolygon built from vertex lists (RingP) *)
Theorem C13_constructed_polygon_wf : forall half o hs,
  span_ok half o -> (2 <= length o)%nat -> ring_zok o ->
  Forall (fun h => span_ok half h /\ (2 <= length h)%nat /\ ring_zok h /\ area2 (close_ring h) <> 0) hs ->
  wkt_wf half (GPoly (mk_polygon half o (map (mk_hole half) hs))).
Proof. exact constructed_polygon_wf. Qed.
Print Assumptions C13_constructed_polygon_wf.

(* the type-dispatching parser reaches the same reader *)
Theorem C13_parse_wkt_dispatch : forall half orc k g t,
  kind_tag g = Some t -> parse_wkt half (write orc k g) = read half t (write orc k g).
Proof. exact parse_wkt_dispatch. Qed.
Print Assumptions C13_parse_wkt_dispatch.

(* box, circle, ellipse, ring, wedge are written and dispatched as POLYGON *)
Theorem C13_shapeless_dispatch : forall half orc k g,
  kind_tag g = None -> w_tag (write orc k g) = Some TPoly /\
  parse_wkt half (write orc k g) = read half TPoly (write orc k g).
Proof. exact shapeless_dispatch. Qed.
Print Assumptions C13_shapeless_dispatch.

(* GeoBox writes exactly the WKT of its polygon form *)
Theorem C13_shapeless_write_box : forall half orc k nw se hs,
  lon nw <= lon se -> lat se <= lat nw -> lon se - lon nw <= half ->
  write orc k (GBox nw se hs) = write orc k (GPoly (mk_polygon half (box_ring nw se) hs)).
Proof. exact shapeless_write_box. Qed.
Print Assumptions C13_shapeless_write_box.

(* circle / ellipse: CONDITIONAL on the sampled boundary (oracle) being closed and counter-clockwise *)
Theorem C13_shapeless_write_round_conditional : forall half orc k id hs,
  closedb (o_outer orc id k) = true -> is_ccw half (o_outer orc id k) = true ->
  write orc k (GRound id hs) = write orc k (GPoly (mk_polygon half (o_outer orc id k) hs)).
Proof. exact shapeless_write_round. Qed.
Print Assumptions C13_shapeless_write_round_conditional.

Theorem C13_shapeless_write_wedge_conditional : forall half orc k id hs,
  let r := (o_outer orc id k ++ rev (o_inner orc id k) ++ firstn 1 (o_outer orc id k))%list in
  is_ccw half r = true -> o_outer orc id k <> [] ->
  write orc k (GWedge id hs) = write orc k (GPoly (mk_polygon half r hs)).
Proof. exact shapeless_write_wedge. Qed.
Print Assumptions C13_shapeless_write_wedge_conditional.

(* --- rejection --- *)

Theorem C13_wrong_tag_rejected : forall half t w,
  w_tag w <> Some t -> read half t w = Err ValueError.
Proof. exact wrong_tag_rejected. Qed.
Print Assumptions C13_wrong_tag_rejected.

Theorem C13_unknown_keyword_rejected : forall half w, w_tag w = None ->
  parse_wkt half w = Err ValueError /\ forall t, read half t w = Err ValueError.
Proof. exact unknown_keyword_rejected. Qed.
Print Assumptions C13_unknown_keyword_rejected.

Theorem C13_lowercase_not_dispatched : forall half w, w_upper w = false -> parse_wkt half w = Err ValueError.
Proof. exact lowercase_not_dispatched. Qed.
Print Assumptions C13_lowercase_not_dispatched.

Theorem C13_bad_arity_rejected : forall half t w c,
  In c (all_tuples (w_body w)) -> ~ (2 <= length c <= 4)%nat -> read half t w = Err ValueError.
Proof. exact bad_arity_rejected. Qed.
Print Assumptions C13_bad_arity_rejected.

(* accepted nesting depths: the one of the type; MULTIPOINT also in the OGC form with one parenthesised
   coordinate per point (depth 2) after repair D41 *)
Theorem C13_wrong_depth_rejected : forall half t w,
  ~ (body_depth (w_body w) = depth_of t \/ (t = TMPoint /\ body_depth (w_body w) = 2%nat)) ->
  read half t w = Err ValueError.
Proof. exact wrong_depth_rejected. Qed.
Print Assumptions C13_wrong_depth_rejected.

(* ... and that form reads as the flat one does (what Shapely 2 writes for a MultiPoint is read back) *)
Theorem C13_multipoint_nested_reads : forall half zm up (ts : list tuple),
  read half TMPoint (mkwkt (Some TMPoint) up zm (W2 (map (fun t => [t]) ts))) =
  read half TMPoint (mkwkt (Some TMPoint) up zm (W1 ts)).
Proof. exact multipoint_nested_reads. Qed.
Print Assumptions C13_multipoint_nested_reads.

(* everything that passes the gate has the keyword, depth and arities of its type *)
Theorem C13_gate_sound : forall t w, gate t w = true ->
  w_tag w = Some t /\ (body_depth (w_body w) = depth_of t \/ (t = TMPoint /\ body_depth (w_body w) = 2%nat)) /\
  Forall (fun c => (2 <= length c <= 4)%nat) (all_tuples (w_body w)).
Proof. exact gate_inv. Qed.
Print Assumptions C13_gate_sound.

(* --- known findings, as refutations of the unrestricted clauses --- *)

(* D14: z = 0 is dropped by the writer *)
Theorem C13_z_zero_roundtrip_refuted :
  exists g g', kind_tag g = Some TPoint /\ read 720 TPoint (write noorc None g) = Ok g' /\ g' <> g.
Proof. exact z_zero_wkt_refuted. Qed.
Print Assumptions C13_z_zero_roundtrip_refuted.

(* D26: "malformed text is rejected with ValueError" fails for a digit run the gate splits *)
Theorem C13_malformed_ValueError_refuted :
  from_wkt_chars TPoint (chars "POINT(1234)") = inr (Err TypeError) /\
  parse_wkt_chars (chars "POINT(1234)") = inr (Err TypeError).
Proof. exact digit_run_split_refuted. Qed.
Print Assumptions C13_malformed_ValueError_refuted.

(* regression for repair D33: Z values of 1000 and above are read back exactly (character level) *)
Theorem C13_z_four_digits_read_exactly :
  from_wkt_chars TPoint (chars "POINT(1.0 2.0 1500.5)") = inr (Ok (GPoint (mkc 10 20 (Some 15005)), -1)) /\
  from_wkt_chars TMPoint (chars "MULTIPOINT(6.5 0.1 12345.678, 1.0 0.5)") =
  inr (Ok (GMPoint [mkc 6500 100 (Some 12345678); mkc 1000 500 None], -3)).
Proof. exact z_four_digits_read_exactly. Qed.
Print Assumptions C13_z_four_digits_read_exactly.

(* regression for repair D41 (character level): the text Shapely 2 writes for a MultiPoint *)
Theorem C13_multipoint_nested_chars :
  from_wkt_chars TMPoint (chars "MULTIPOINT ((0.5 1.0), (2.0 3.5))") =
  from_wkt_chars TMPoint (chars "MULTIPOINT(0.5 1.0, 2.0 3.5)") /\
  from_wkt_chars TMPoint (chars "MULTIPOINT Z ((0.5 1.0 7.0), (2.0 3.5 8.0))") =
  inr (Ok (GMPoint [mkc 5 10 (Some 70); mkc 20 35 (Some 80)], -1)) /\
  from_wkt_chars TMPoint (chars "MULTIPOINT((0.5 1.0, 2.0 3.5))") = inr (Err ValueError) /\
  parse_wkt_chars (chars "MULTIPOINT ((0.5 1.0), (2.0 3.5))") = from_wkt_chars TMPoint (chars "MULTIPOINT(0.5 1.0, 2.0 3.5)").
Proof. exact multipoint_nested_chars. Qed.
Print Assumptions C13_multipoint_nested_chars.

Theorem C13_char_level_examples :
  from_wkt_chars TPoint (chars "POINT(1.0 2.0 150.5)") = inr (Ok (GPoint (mkc 10 20 (Some 1505)), -1)) /\
  from_wkt_chars TPoint (chars "POINT(1e-05 5.0)") = inr (Ok (GPoint (mkc 1 500000 None), -5)) /\
  from_wkt_chars TLine (chars "POINT(1.0 2.0)") = inr (Err ValueError) /\
  parse_wkt_chars (chars "point(1.0 2.0)") = inr (Err ValueError) /\
  from_wkt_chars TPoint (chars "POINT(1.0 2.0") = inr (Err ValueError).
Proof. exact char_level_examples. Qed.
Print Assumptions C13_char_level_examples.

(* non-vacuity: a multipolygon whose first part has a hole meets wkt_wf, and the round trip computes *)
Definition ex_sq : ring := [mkc 0 0 None; mkc 0 40 None; mkc 40 40 None; mkc 40 0 None].
Definition ex_hole : ring := [mkc 8 8 (Some 3); mkc 12 8 (Some 3); mkc 12 12 (Some 3); mkc 8 8 (Some 3)].
Definition ex_tri : ring := [mkc 80 80 None; mkc 84 80 None; mkc 84 84 None].
Definition ex_mp : geom :=
  GMPoly [mk_polygon 720 ex_sq (map (mk_hole 720) [ex_hole]); mk_polygon 720 ex_tri []].

Example C13_nonvacuous :
  is_ccw 720 ex_sq = false /\ closedb ex_tri = false /\
  kind_tag ex_mp = Some TMPoly /\
  read 720 TMPoly (write noorc None ex_mp) = Ok ex_mp /\
  parse_wkt 720 (write noorc None ex_mp) = Ok ex_mp /\
  read 720 TPoly (write noorc None ex_mp) = Err ValueError /\
  length (all_tuples (w_body (write noorc None ex_mp))) = 13%nat.
Proof. vm_compute. repeat split; reflexivity. Qed.

Example C13_nonvacuous_wf : wkt_wf 720 ex_mp.
Proof.
  unfold wkt_wf, ex_mp. split; [discriminate|].
  repeat constructor; vm_compute; try discriminate; try reflexivity; try (intros H; discriminate H); try lia.
Qed.
