(* C13 — WKT round-trips; malformed or wrongly-typed text is rejected.
   This file holds only statements closed by [exact] and their Print Assumptions. *)
From GV Require Import Prelude RingM RingP WktM WktP.
Open Scope Z_scope.

Theorem C13_wrong_tag_rejected : forall half t w,
  w_tag w <> Some t -> read half t w = Err ValueError.
Proof. exact wrong_tag_rejected. Qed.
Print Assumptions C13_wrong_tag_rejected.
