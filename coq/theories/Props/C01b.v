(* C01b — the even-odd interior computed by GeoPolygon._point_in_polygon IS the geometric
   interior, for the convex families the library builds all the time (closing, for them, the
   "polygonal Jordan curve theorem" gap left open by C01.v).
   This file holds only statements closed by [exact] and their Print Assumptions.

   C01.v proves  pip w p ring = true <-> strict_in p ring  with
   strict_in = ~ on_boundary /\ evenodd (half-open crossing count of the eastward ray).
   Here strict_in / on_boundary / pip / poly_contains are characterised by coordinate
   inequalities and orientation tests, over all integers:
     A. axis-aligned rectangles  rect x0 y0 x1 y1 = [nw; sw; se; ne]  (GeoBox.bounding_coords;
        box_ring nw se is the self-closing list it returns), any start vertex, either winding;
     B. non-degenerate triangles, either winding;
     C. every strictly convex counter-clockwise ring of any length (ccw3: all triples taken in
        list order turn strictly left; equivalently, with >= 3 vertices: no repeated vertex and
        every vertex strictly left of every edge it is not an endpoint of), also read backwards.
   NOT proved: arbitrary simple (non-convex) rings. *)
From GV Require Import Prelude GeomM GeomP GeomP2 GeomP3 GeomP4 GeomP6 GeomP7.
Open Scope Z_scope.

(* ================================================================== A. rectangles *)

Theorem C01_rect_strict_in : forall x0 y0 x1 y1 p, x0 < x1 -> y0 < y1 ->
  (strict_in p (rect x0 y0 x1 y1) <-> x0 < px p < x1 /\ y0 < py p < y1).
Proof. exact strict_in_rect. Qed.
Print Assumptions C01_rect_strict_in.

Theorem C01_rect_on_boundary : forall x0 y0 x1 y1 p, x0 <= x1 -> y0 <= y1 ->
  (on_boundary p (rect x0 y0 x1 y1) <->
   (x0 <= px p <= x1 /\ y0 <= py p <= y1) /\
   (px p = x0 \/ px p = x1 \/ py p = y0 \/ py p = y1)).
Proof. exact on_boundary_rect. Qed.
Print Assumptions C01_rect_on_boundary.

(* every rotation, both windings, closed, and after GeoPolygon.__init__ *)
Theorem C01_rect_strict_in_any : forall x0 y0 x1 y1 p k h, x0 < x1 -> y0 < y1 ->
  (strict_in p (rot k (rect x0 y0 x1 y1)) <-> open_box x0 y0 x1 y1 p) /\
  (strict_in p (rot k (rev (rect x0 y0 x1 y1))) <-> open_box x0 y0 x1 y1 p) /\
  (strict_in p (norm_outline h (reclose (rot k (rect x0 y0 x1 y1)))) <-> open_box x0 y0 x1 y1 p) /\
  (strict_in p (norm_outline h (reclose (rot k (rev (rect x0 y0 x1 y1))))) <-> open_box x0 y0 x1 y1 p).
Proof. exact strict_in_rect_any. Qed.
Print Assumptions C01_rect_strict_in_any.

Theorem C01_rect_on_boundary_any : forall x0 y0 x1 y1 p k, x0 <= x1 -> y0 <= y1 ->
  (on_boundary p (reclose (rot k (rect x0 y0 x1 y1))) <-> on_frame x0 y0 x1 y1 p) /\
  (on_boundary p (reclose (rot k (rev (rect x0 y0 x1 y1)))) <-> on_frame x0 y0 x1 y1 p).
Proof. exact on_boundary_rect_any. Qed.
Print Assumptions C01_rect_on_boundary_any.

(* the code *)
Theorem C01_rect_pip : forall w x0 y0 x1 y1 p k h, x0 < x1 -> y0 < y1 -> w <= x0 -> w <= px p ->
  (pip w p (norm_outline h (reclose (rot k (rect x0 y0 x1 y1)))) = true
     <-> x0 < px p < x1 /\ y0 < py p < y1) /\
  (pip w p (norm_outline h (reclose (rot k (rev (rect x0 y0 x1 y1))))) = true
     <-> x0 < px p < x1 /\ y0 < py p < y1).
Proof. exact pip_rect. Qed.
Print Assumptions C01_rect_pip.

Theorem C01_box_ring_pip : forall w nw se p h,
  px nw < px se -> py se < py nw -> w <= px nw -> w <= px p ->
  (pip w p (box_ring nw se) = true <-> open_box (px nw) (py se) (px se) (py nw) p) /\
  (pip w p (norm_outline h (box_ring nw se)) = true <-> open_box (px nw) (py se) (px se) (py nw) p).
Proof. exact pip_box_ring. Qed.
Print Assumptions C01_box_ring_pip.

Theorem C01_rect_poly_contains : forall w x0 y0 x1 y1 p k h,
  x0 < x1 -> y0 < y1 -> w <= x0 -> w <= px p ->
  (poly_contains w (norm_outline h (reclose (rot k (rect x0 y0 x1 y1)))) [] p = true
     <-> open_box x0 y0 x1 y1 p) /\
  (poly_contains w (norm_outline h (reclose (rot k (rev (rect x0 y0 x1 y1))))) [] p = true
     <-> open_box x0 y0 x1 y1 p).
Proof. exact poly_contains_rect. Qed.
Print Assumptions C01_rect_poly_contains.

(* GeoBox (closed) against GeoBox.to_polygon() (open): equal off the frame, and on the frame the
   box says True and the polygon False — the documented difference, and the only one *)
Theorem C01_box_vs_polygon : forall w nw se p h,
  px nw < px se -> py se < py nw -> w <= px nw -> w <= px p ->
  let x0 := px nw in let y0 := py se in let x1 := px se in let y1 := py nw in
  let poly := poly_contains w (norm_outline h (box_ring nw se)) [] p in
  let box := box_contains w nw se [] p in
  (~ on_frame x0 y0 x1 y1 p -> poly = box) /\
  (on_frame x0 y0 x1 y1 p -> box = true /\ poly = false) /\
  poly = box && negb (on_frameb x0 y0 x1 y1 p) /\
  (box = true <-> box_closed nw se p) /\ (poly = true <-> open_box x0 y0 x1 y1 p).
Proof. exact box_vs_polygon. Qed.
Print Assumptions C01_box_vs_polygon.

(* ================================================================== B. triangles *)

(* the crossing count of a counter-clockwise triangle, for EVERY p (boundary included), is the
   shifted-point test: p + (d, e), 0 < e << d, strictly left of the three edges *)
Theorem C01_tri_par : forall p a b c, 0 < cross a b c ->
  par (east_z p) (cyc_edges [a; b; c]) = lpos p (a, b) && lpos p (b, c) && lpos p (c, a).
Proof. exact tri_par. Qed.
Print Assumptions C01_tri_par.

Theorem C01_tri_on_boundary : forall p a b c,
  on_boundary p [a; b; c] <-> on_seg p a b \/ on_seg p b c \/ on_seg p c a.
Proof. exact on_boundary_tri. Qed.
Print Assumptions C01_tri_on_boundary.

(* strict even-odd interior = the open triangle: the three orientation tests have the strict
   sign of the triangle's own orientation *)
Theorem C01_tri_strict_in : forall p a b c, cross a b c <> 0 ->
  (strict_in p [a; b; c] <->
   (0 < cross a b c /\ 0 < cross a b p /\ 0 < cross b c p /\ 0 < cross c a p) \/
   (cross a b c < 0 /\ cross a b p < 0 /\ cross b c p < 0 /\ cross c a p < 0)).
Proof. exact strict_in_tri. Qed.
Print Assumptions C01_tri_strict_in.

Theorem C01_tri_strict_in_any : forall p a b c k h, cross a b c <> 0 ->
  (strict_in p (rot k [a; b; c]) <-> tri_open a b c p) /\
  (strict_in p (reclose [a; b; c]) <-> tri_open a b c p) /\
  (strict_in p (norm_outline h (reclose (rot k [a; b; c]))) <-> tri_open a b c p) /\
  (strict_in p (norm_outline h (reclose (rot k (rev [a; b; c])))) <-> tri_open a b c p).
Proof. exact strict_in_tri_any. Qed.
Print Assumptions C01_tri_strict_in_any.

Theorem C01_tri_pip : forall w p a b c k h,
  west_ok w [a; b; c] -> w <= px p -> cross a b c <> 0 ->
  (pip w p (norm_outline h (reclose (rot k [a; b; c]))) = true <-> tri_open a b c p) /\
  (pip w p (norm_outline h (reclose (rot k (rev [a; b; c])))) = true <-> tri_open a b c p).
Proof. exact pip_tri. Qed.
Print Assumptions C01_tri_pip.

Theorem C01_tri_poly_contains : forall w p a b c k h,
  west_ok w [a; b; c] -> w <= px p -> cross a b c <> 0 ->
  (poly_contains w (norm_outline h (reclose (rot k [a; b; c]))) [] p = true <-> tri_open a b c p).
Proof. exact poly_contains_tri. Qed.
Print Assumptions C01_tri_poly_contains.

(* ================================================================== C. strictly convex rings *)

(* the hypothesis means what it says *)
Theorem C01_ccw3_spec : forall r, ccw3 r <->
  forall l1 a l2 b l3 c l4, r = l1 ++ a :: l2 ++ b :: l3 ++ c :: l4 -> 0 < cross a b c.
Proof. exact ccw3_spec. Qed.
Print Assumptions C01_ccw3_spec.

Theorem C01_strictly_convex_iff : forall r, (3 <= length r)%nat ->
  ((NoDup r /\
    forall e v, In e (cyc_edges r) -> In v r -> v <> fst e -> v <> snd e ->
                0 < cross (fst e) (snd e) v) <-> ccw3 r).
Proof. exact strictly_convex_iff. Qed.
Print Assumptions C01_strictly_convex_iff.

Theorem C01_ccw3_vertex_left : forall r, ccw3 r -> forall e v, In e (cyc_edges r) -> In v r ->
  0 <= cross (fst e) (snd e) v /\ (v <> fst e -> v <> snd e -> 0 < cross (fst e) (snd e) v).
Proof. exact ccw3_vertex_left. Qed.
Print Assumptions C01_ccw3_vertex_left.

(* the crossing count of a strictly convex ring, for EVERY p (boundary included) *)
Theorem C01_convex_par : forall p r, r <> [] -> ccw3 r ->
  par (east_z p) (cyc_edges r) = forallb (lpos p) (cyc_edges r).
Proof. exact convex_par. Qed.
Print Assumptions C01_convex_par.

(* strict even-odd interior = strictly left of every edge (the geometric open convex polygon) *)
Theorem C01_convex_strict_in : forall p r, r <> [] -> ccw3 r ->
  (strict_in p r <-> forall e, In e (cyc_edges r) -> 0 < cross (fst e) (snd e) p).
Proof. exact convex_strict_in. Qed.
Print Assumptions C01_convex_strict_in.

Theorem C01_strictly_convex_strict_in : forall p r, r <> [] -> strictly_convex r ->
  (strict_in p r <-> left_of_all p r).
Proof. exact strictly_convex_strict_in. Qed.
Print Assumptions C01_strictly_convex_strict_in.

(* the code, for every start vertex, both windings, after GeoPolygon.__init__ *)
Theorem C01_convex_pip : forall w p r k h, r <> [] -> ccw3 r -> west_ok w r -> w <= px p ->
  (pip w p (norm_outline h (reclose (rot k r))) = true <-> left_of_all p r) /\
  (pip w p (norm_outline h (reclose (rot k (rev r)))) = true <-> left_of_all p r).
Proof. exact pip_convex. Qed.
Print Assumptions C01_convex_pip.

Theorem C01_convex_poly_contains : forall w p r k h,
  r <> [] -> ccw3 r -> west_ok w r -> w <= px p ->
  (poly_contains w (norm_outline h (reclose (rot k r))) [] p = true <-> left_of_all p r).
Proof. exact poly_contains_convex. Qed.
Print Assumptions C01_convex_poly_contains.

(* ================================================================== non-vacuity *)

(* a 5 x 5 box: inside, west edge, ne corner, south edge, outside; box vs polygon on the frame *)
Example C01b_nonvacuous_rect :
  let nw := (2, 9) in let se := (7, 4) in
  px nw < px se /\ py se < py nw /\ -360 <= px nw /\
  pip (-360) (3, 5) (norm_outline false (box_ring nw se)) = true /\
  pip (-360) (2, 5) (norm_outline false (box_ring nw se)) = false /\
  pip (-360) (7, 9) (norm_outline false (box_ring nw se)) = false /\
  pip (-360) (4, 4) (norm_outline false (box_ring nw se)) = false /\
  pip (-360) (8, 5) (norm_outline false (box_ring nw se)) = false /\
  box_contains (-360) nw se [] (2, 5) = true /\ box_contains (-360) nw se [] (7, 9) = true /\
  box_contains (-360) nw se [] (8, 5) = false.
Proof. exact nonvacuous_rect. Qed.

(* a scalene triangle: inside, inside and level with a vertex (read clockwise), on an edge,
   on a vertex, outside *)
Example C01b_nonvacuous_tri :
  let a := (0, 0) in let b := (8, 2) in let c := (3, 9) in
  cross a b c <> 0 /\ west_ok (-360) [a; b; c] /\
  tri_open a b c (4, 4) /\ pip (-360) (4, 4) (norm_outline false (reclose [a; b; c])) = true /\
  tri_open a b c (3, 2) /\ pip (-360) (3, 2) (norm_outline false (reclose [c; b; a])) = true /\
  ~ tri_open a b c (4, 1) /\ pip (-360) (4, 1) (norm_outline false (reclose [a; b; c])) = false /\
  ~ tri_open a b c (3, 9) /\ pip (-360) (3, 9) (norm_outline false (reclose [a; b; c])) = false /\
  ~ tri_open a b c (7, 7) /\ pip (-360) (7, 7) (norm_outline false (reclose [a; b; c])) = false.
Proof. exact nonvacuous_tri. Qed.

(* a strictly convex octagon: its centre (on four diagonals, level with no vertex), an interior
   point level with a vertex, an exterior point, a vertex, a point east of it *)
Example C01b_nonvacuous_convex :
  ccw3 ex_convex /\ west_ok (-360) ex_convex /\
  left_of_all (6, 6) ex_convex /\ pip (-360) (6, 6) (norm_outline false (reclose ex_convex)) = true /\
  left_of_all (1, 4) ex_convex /\ pip (-360) (1, 4) (norm_outline false (reclose ex_convex)) = true /\
  ~ left_of_all (10, 2) ex_convex /\ pip (-360) (10, 2) (norm_outline false (reclose ex_convex)) = false /\
  ~ left_of_all (0, 4) ex_convex /\ pip (-360) (0, 4) (norm_outline false (reclose ex_convex)) = false /\
  ~ left_of_all (13, 6) ex_convex /\ pip (-360) (13, 6) (norm_outline false (reclose ex_convex)) = false.
Proof. exact nonvacuous_convex. Qed.
