(* C19 — coordinate text and grid formats round-trip within their resolution (placeholder,
   replaced as the proofs land). *)
From Coq Require Import QArith String.
From GV Require Import Prelude CoordM FormatM.
Open Scope string_scope.

Example C19_nonvacuous :
  to_qdms (mkc (-154092 # 1000000) (51539865 # 1000000) None None) false = ("W000091473", "N51322351").
Proof. vm_compute. reflexivity. Qed.
