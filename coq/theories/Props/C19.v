(* C19 — coordinate text and grid formats round-trip within their resolution.
   Only statements closed by [exact] and their Print Assumptions.  Exact rational model
   (FormatM.v); a "stored coordinate" is a canonical one (C08).  MGRS and the pyproj round
   trips are third-party numerics: no theorem (observed by the check on a fixed corpus). *)
From Coq Require Import QArith Qabs Lqa String Ascii.
From GV Require Import Prelude CoordM CoordP FormatM FormatP FormatP2.
Open Scope Q_scope.

(* to_dms, each axis, every rational value: 0 <= min < 60, 0 <= sec <= 60 (in 1e-5 units),
   degrees = integer part of |value|, hemisphere E/N exactly when the value is >= 0 *)
Theorem C19_dms_ranges : forall dd,
  let t := to_dms_axis dd in
  (0 <= mn t < 60)%Z /\ (0 <= s5 t <= 6000000)%Z /\
  (inject_Z (dg t) <= Qabs dd /\ Qabs dd < inject_Z (dg t) + 1) /\
  (pos t = true <-> 0 <= dd).
Proof. exact dms_ranges. Qed.
Print Assumptions C19_dms_ranges.

(* seconds = 60.0 is reached (rounding up is not carried into the minutes): "<= 60" is tight *)
Theorem C19_dms_seconds_60_reachable :
  exists dd, s5 (to_dms_axis dd) = 6000000%Z /\ mn (to_dms_axis dd) = 59%Z.
Proof. exact dms_seconds_60_reachable. Qed.
Print Assumptions C19_dms_seconds_60_reachable.

(* the number from_dms computes for to_dms's tuple: within (0.5e-5 + 1e-17)/3600 degrees *)
Theorem C19_dms_axis_roundtrip : forall dd,
  - dms_eps <= dms_num (to_dms_axis dd) - dd /\ dms_num (to_dms_axis dd) - dd <= dms_eps.
Proof. exact dms_axis_roundtrip. Qed.
Print Assumptions C19_dms_axis_roundtrip.

(* the same bound on the seconds count x the float code actually splits (the float product
   abs(dd)*3600; the check verifies per case that it is within half an ulp of the exact one) *)
Theorem C19_dms_of_x_roundtrip : forall x, 0 <= x ->
  - dms_eps <= dms_num (dms_of_x x true) - x / 3600 /\
  dms_num (dms_of_x x true) - x / 3600 <= dms_eps.
Proof. exact dms_of_x_roundtrip. Qed.
Print Assumptions C19_dms_of_x_roundtrip.

Theorem C19_dms_eps_value : dms_eps == ((1 # 200000) + (1 # 100000000000000000)) / 3600.
Proof. exact dms_eps_is. Qed.

(* whole round trip through the normalising constructor *)
Theorem C19_dms_roundtrip : forall c, canonical c ->
  exists c', from_dms (fst (to_dms c)) (snd (to_dms c)) = Ok c' /\
    within dms_eps (clat c') (clat c) /\
    (within dms_eps (clon c') (clon c) \/ within dms_eps (clon c' + 360) (clon c)).
Proof. exact dms_roundtrip. Qed.
Print Assumptions C19_dms_roundtrip.

(* QDDDMMSSHH / QDDMMSSHH are always 10 and 9 characters (after repair D19), either order *)
Theorem C19_qdms_lengths : forall c rev, canonical c ->
  let (a, b) := to_qdms c rev in
  if rev then String.length a = 9%nat /\ String.length b = 10%nat
  else String.length a = 10%nat /\ String.length b = 9%nat.
Proof. exact qdms_lengths. Qed.
Print Assumptions C19_qdms_lengths.

(* hemisphere letters match the sign: E/N exactly when the value is >= 0 *)
Theorem C19_qdms_letters : forall c,
  String.get 0 (fst (to_qdms c false)) = Some (if Qle_bool 0 (clon c) then "E"%char else "W"%char) /\
  String.get 0 (snd (to_qdms c false)) = Some (if Qle_bool 0 (clat c) then "N"%char else "S"%char).
Proof. exact qdms_letters. Qed.
Print Assumptions C19_qdms_letters.

(* from_qdms reads back exactly the numbers to_qdms wrote (digit strings parse to the integers
   printed) and the result is within qdms_eps per axis:
   (0.005 + 1e-14 + 0.5e-5 + 1e-17)/3600 [two roundings of the seconds] + 0.5e-6 + 1e-18
   [from_qdms's own rounding to 1e-6 degrees] *)
Theorem C19_qdms_roundtrip : forall c, canonical c ->
  exists c', from_qdms (fst (to_qdms c false)) (snd (to_qdms c false)) = Some (Ok c') /\
    within qdms_eps (clat c') (clat c) /\
    (within qdms_eps (clon c') (clon c) \/ within qdms_eps (clon c' + 360) (clon c)).
Proof. exact qdms_roundtrip. Qed.
Print Assumptions C19_qdms_roundtrip.

Theorem C19_qdms_eps_value : qdms_eps ==
  ((1 # 200) + (1 # 100000000000000) + (1 # 200000) + (1 # 100000000000000000)) / 3600
  + (1 # 2000000) + (1 # 1000000000000000000).
Proof. reflexivity. Qed.

(* inputs with at most 6 decimals come back exactly or as the neighbouring multiple of 1e-6
   degrees: error <= 1e-6 degrees = 0.0036 arc-seconds (< 0.005) *)
Theorem C19_qdms_roundtrip_6dec : forall c (nlon nlat : Z), canonical c ->
  clon c == inject_Z nlon / 1000000 -> clat c == inject_Z nlat / 1000000 ->
  exists c', from_qdms (fst (to_qdms c false)) (snd (to_qdms c false)) = Some (Ok c') /\
    within (1 # 1000000) (clat c') (clat c) /\
    (within (1 # 1000000) (clon c') (clon c) \/ within (1 # 1000000) (clon c' + 360) (clon c)).
Proof. exact qdms_roundtrip_6dec. Qed.
Print Assumptions C19_qdms_roundtrip_6dec.

(* the property's "within 0.005 arc-second" read literally of the text is false by double
   rounding (12.004996" -> 12.00500" -> 12.01"): the proved bound carries the extra 0.5e-5" *)
Theorem C19_qdms_text_0005_refuted : exists dd,
  (1 # 200) / 3600 < axis_read (to_dms_axis dd) - dd.
Proof. exact qdms_text_0005_refuted. Qed.
Print Assumptions C19_qdms_text_0005_refuted.

(* regression statement for D19: the writer used before the repair loses 12.00" -> 1.20" *)
Theorem C19_qdms_trailing_zero_refuted : exists c c',
  canonical c /\
  from_qdms (fst (to_qdms_preD19 c)) (snd (to_qdms_preD19 c)) = Some (Ok c') /\
  (10 # 1) / 3600 < clon c - clon c'.
Proof. exact qdms_trailing_zero_refuted. Qed.
Print Assumptions C19_qdms_trailing_zero_refuted.

(* "projected values are returned as-is": only when they happen to lie in the degree ranges
   (and z is polluted with False = 0); false in general — finding D20.  T is the third-party
   transform, universally quantified. *)
Theorem C19_projection_as_is_partial : forall (T : Q -> Q -> Q * Q) c,
  let x := fst (T (clat c) (clon c)) in
  let y := snd (T (clat c) (clon c)) in
  -180 <= rhu y 6 -> rhu y 6 < 180 -> -90 <= rhu x 6 -> rhu x 6 <= 90 ->
  to_projection T c = Ok (mkc (rhu y 6) (rhu x 6) (Some 0) None).
Proof. exact projection_as_is_partial. Qed.
Print Assumptions C19_projection_as_is_partial.

Theorem C19_projection_as_is_refuted :
  exists (T : Q -> Q -> Q * Q) c c',
    canonical c /\ to_projection T c = Ok c' /\
    ~ (clon c' == rhu (snd (T (clat c) (clon c))) 6 /\ clat c' == rhu (fst (T (clat c) (clon c))) 6).
Proof. exact projection_as_is_refuted. Qed.
Print Assumptions C19_projection_as_is_refuted.

(* non-vacuity: a canonical coordinate and what the four converters give on it *)
Example C19_nonvacuous :
  canonical (mkc (-154092 # 1000000) (51539865 # 1000000) None None) /\
  to_qdms (mkc (-154092 # 1000000) (51539865 # 1000000) None None) false
    = ("W000091473", "N51322351")%string /\
  to_dms_axis (-154092 # 1000000) = mkdms 0 9 1473120 false /\
  from_qdms "W000091473" "N51322351"
    = Some (Ok (mkc (-154092 # 1000000) (51539864 # 1000000) None None)).
Proof.
  split; [unfold canonical; cbn [clon clat]; repeat split; lra|].
  vm_compute. repeat split.
Qed.
