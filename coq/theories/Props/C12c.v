(* C12 x C02 x C11 -- hashing a hole-free GeoBox, with the per-cell test AS THE IMPLEMENTATION MODELS
   COMPUTE IT: niemeyer_to_geobox(cell).intersects_shape(query) = GeohashM.cell_box (C11) followed by
   PairM.intersects_shape (C02) on Box x Box.  This closes the gap left in C12b Part C ("the per-cell
   test is geometric truth" was a hypothesis there): for a GeoBox query it is now a theorem, on every
   cell the loop examines.
   PairM is over Z, the codec over Q: the bridge is a scale s > 0 with [integral s q] (q * s is an
   integer) for the query corners and for every cell bound; s = grid_nx * grid_ny always works for
   the three tables (C12_grid_scale_ok), and the C02 answer is invariant under scaling
   (C12_box_box_intersects_scale).
   Hypotheses that remain (and why): the touched cells are strongly interior -- their 3 x 3 block is
   inside the ranges and WEST of longitude 180 -- so that no examined cell lies in the lon-180 column
   where niemeyer_to_geobox builds an inverted box (finding D12; C12c_east_column_refuted shows the
   equality of the two tests is false there, replayed on /repo); non-degenerate query; start point in
   the box (the implementation starts at a corner).
   Still not proved: anything for non-box query shapes; the float code is tied to these exact models
   by the C02/C11 correspondences, not here.
   This file holds only statements closed by [exact] and their Print Assumptions. *)
From Coq Require Import QArith.
From GV Require Import Prelude TimeM GeomM PairM PairP2.
From GV Require Import GeohashM GeohashP GeohashP2 FloodM FloodP FloodP3 FloodP4 FloodP5 FloodP6 FloodP7 FloodP8.
Open Scope Z_scope.

(* ---- scaling on the C02 side -------------------------------------------------------------------- *)
Theorem C12_rects_meet_scale : forall s xa0 ya0 xa1 ya1 xb0 yb0 xb1 yb1, 0 < s ->
  rects_meet (s * xa0) (s * ya0) (s * xa1) (s * ya1) (s * xb0) (s * yb0) (s * xb1) (s * yb1) =
  rects_meet xa0 ya0 xa1 ya1 xb0 yb0 xb1 yb1.
Proof. exact rects_meet_scale. Qed.
Print Assumptions C12_rects_meet_scale.

Theorem C12_box_box_intersects_scale : forall s w w' nwA seA dA nwB seB dB, 0 < s ->
  px nwA < px seA -> py seA < py nwA -> px nwB < px seB -> py seB < py nwB ->
  PairM.intersects_shape w (Box (scale_pt s nwA) (scale_pt s seA) [] dA)
                           (Box (scale_pt s nwB) (scale_pt s seB) [] dB) =
  PairM.intersects_shape w' (Box nwA seA [] dA) (Box nwB seB [] dB).
Proof. exact box_box_intersects_scale. Qed.
Print Assumptions C12_box_box_intersects_scale.

(* ---- the per-cell test ---------------------------------------------------------------------------- *)
(* on a cell whose box is built without wrap-around, the implementation-model test IS the closed
   overlap of the cell box and the query box *)
Theorem C12_impl_touch_is_geometric : forall c, cfg_ok c -> forall w s, 0 < s ->
  forall a b ya yb, (a < b)%Q -> (ya < yb)%Q ->
  integral s a -> integral s b -> integral s ya -> integral s yb ->
  forall gh x y ex ey,
  decode c gh = Ok (x, y, ex, ey) -> plain_box (x, y, ex, ey) -> cell_integral s (x, y, ex, ey) ->
  impl_touch c w s a b ya yb gh = box_touch c a b ya yb gh.
Proof. exact impl_touch_eq. Qed.
Print Assumptions C12_impl_touch_is_geometric.

(* the neighbours of a strongly interior cell have plain boxes: the loop never builds a wrapped box *)
Theorem C12_neighbours_plain_box : forall c, cfg_ok c -> forall gh x y ex ey n r',
  decode c gh = Ok (x, y, ex, ey) -> interior3s c (x, y, ex, ey) ->
  In n (get_surrounding c gh) -> decode c n = Ok r' -> plain_box r'.
Proof. exact nbr_plain_box. Qed.
Print Assumptions C12_neighbours_plain_box.

(* a scale that always works: integer coordinate ranges (all three tables) *)
Theorem C12_grid_scale_ok : forall c len k, cfg_ok c -> cfg_int c ->
  forall gh r, valid_len c len gh -> decode c gh = Ok r ->
  cell_integral (k * grid_nx c len * grid_ny c len) r.
Proof. exact grid_scale_ok. Qed.
Print Assumptions C12_grid_scale_ok.

(* the flood only reads the test at neighbours of reached cells *)
Theorem C12_reach_congr : forall cell nbr (t1 t2 : cell -> bool) start,
  (forall c0 n, reach cell nbr t1 start c0 -> In n (nbr c0) -> t1 n = t2 n) ->
  forall x, reach cell nbr t1 start x <-> reach cell nbr t2 start x.
Proof. exact reach_congr. Qed.
Print Assumptions C12_reach_congr.

(* ---- hash_shape(GeoBox) -------------------------------------------------------------------------- *)
(* general configuration and scale *)
Theorem C12_hash_box_exact_impl : forall c, cfg_ok c -> forall len w s, 0 < s ->
  forall a b ya yb, (a < b)%Q -> (ya < yb)%Q ->
  integral s a -> integral s b -> integral s ya -> integral s yb ->
  (forall gh r, valid_len c len gh -> decode c gh = Ok r -> cell_integral s r) ->
  (forall gh r, valid_len c len gh -> box_touch c a b ya yb gh = true -> decode c gh = Ok r ->
                interior3s c r) ->
  forall start, in_range c start -> FloodP7.in_box a b ya yb start ->
  forall fuel r, niemeyer_flood c len start (impl_touch c w s a b ya yb) fuel = Some r ->
  forall gh, In gh r <-> valid_len c len gh /\ box_touch c a b ya yb gh = true.
Proof. exact niemeyer_box_exact_impl. Qed.
Print Assumptions C12_hash_box_exact_impl.

Theorem C12_hash_box_terminates_impl : forall c, cfg_ok c -> forall len w s, 0 < s ->
  forall a b ya yb, (a < b)%Q -> (ya < yb)%Q ->
  integral s a -> integral s b -> integral s ya -> integral s yb ->
  (forall gh r, valid_len c len gh -> decode c gh = Ok r -> cell_integral s r) ->
  (forall gh r, valid_len c len gh -> box_touch c a b ya yb gh = true -> decode c gh = Ok r ->
                interior3s c r) ->
  forall start, in_range c start -> FloodP7.in_box a b ya yb start ->
  forall fuel, (length (all_strs (charset c) len) + 2 <= fuel)%nat ->
  exists r, niemeyer_flood c len start (impl_touch c w s a b ya yb) fuel = Some r /\
            forall gh, In gh r <-> valid_len c len gh /\ box_touch c a b ya yb gh = true.
Proof. exact niemeyer_box_terminates_impl. Qed.
Print Assumptions C12_hash_box_terminates_impl.

(* base 32 (ranges inside the coordinate range): index hypotheses only; the east margin is TWO columns *)
Theorem C12_hash_box_exact_impl_geo : forall c len w s a b ya yb start fuel r,
  cfg_ok c -> cfg_geo c -> 0 < s -> (a < b)%Q -> (ya < yb)%Q ->
  integral s a -> integral s b -> integral s ya -> integral s yb ->
  (forall gh r, valid_len c len gh -> decode c gh = Ok r -> cell_integral s r) ->
  (0 < box_x0 c len a /\ box_x1 c len b < grid_nx c len - 2) ->
  (0 < box_y0 c len ya /\ box_y1 c len yb < grid_ny c len - 1) ->
  in_range c start -> FloodP7.in_box a b ya yb start ->
  niemeyer_flood c len start (impl_touch c w s a b ya yb) fuel = Some r ->
  forall gh, In gh r <-> valid_len c len gh /\ box_touch c a b ya yb gh = true.
Proof. exact niemeyer_box_exact_impl_geo. Qed.
Print Assumptions C12_hash_box_exact_impl_geo.

Theorem C12_hash_box_terminates_impl_geo : forall c len w s a b ya yb start fuel,
  cfg_ok c -> cfg_geo c -> 0 < s -> (a < b)%Q -> (ya < yb)%Q ->
  integral s a -> integral s b -> integral s ya -> integral s yb ->
  (forall gh r, valid_len c len gh -> decode c gh = Ok r -> cell_integral s r) ->
  (0 < box_x0 c len a /\ box_x1 c len b < grid_nx c len - 2) ->
  (0 < box_y0 c len ya /\ box_y1 c len yb < grid_ny c len - 1) ->
  in_range c start -> FloodP7.in_box a b ya yb start ->
  (length (all_strs (charset c) len) + 2 <= fuel)%nat ->
  exists r, niemeyer_flood c len start (impl_touch c w s a b ya yb) fuel = Some r /\
            forall gh, In gh r <-> valid_len c len gh /\ box_touch c a b ya yb gh = true.
Proof. exact niemeyer_box_terminates_impl_geo. Qed.
Print Assumptions C12_hash_box_terminates_impl_geo.

(* end to end, no hypothesis about the scale or the test: whole-degree query corners, scale
   grid_nx * grid_ny; the result is exactly the set of cells (strings of the hasher's length over the
   alphabet) whose closed box shares a point with the closed query box *)
Theorem C12_hash_int_box_exact_impl : forall c len w (A B YA YB : Z) start fuel r,
  cfg_ok c -> cfg_geo c -> cfg_int c -> A < B -> YA < YB ->
  let a := inject_Z A in let b := inject_Z B in let ya := inject_Z YA in let yb := inject_Z YB in
  let s := grid_nx c len * grid_ny c len in
  (0 < box_x0 c len a /\ box_x1 c len b < grid_nx c len - 2) ->
  (0 < box_y0 c len ya /\ box_y1 c len yb < grid_ny c len - 1) ->
  in_range c start -> FloodP7.in_box a b ya yb start ->
  niemeyer_flood c len start (impl_touch c w s a b ya yb) fuel = Some r ->
  forall gh, In gh r <->
    valid_len c len gh /\
    exists rr, decode c gh = Ok rr /\ exists p, in_cell p rr /\ FloodP7.in_box a b ya yb p.
Proof. exact hash_int_box_exact_impl. Qed.
Print Assumptions C12_hash_int_box_exact_impl.

(* ---- the lon-180 column (finding D12) is rightly outside the hypotheses --------------------------- *)
(* cell "zb" = [168.75, 180] x [45, 50.625] of base 32 / length 2; the query box
   [170, 175] x [46, 50] lies inside it; niemeyer_to_geobox gives the cell the south-east corner
   (-180, 45), and the implementation-model test says "not touched" (so does /repo) *)
Theorem C12c_east_column_refuted :
  exists gh a b ya yb, box_touch cfg32 a b ya yb gh = true /\
    impl_touch cfg32 (-180 * 1024) 1024 a b ya yb gh = false /\
    exists nw se, cell_box cfg32 gh = Ok (nw, se) /\ (fst se < fst nw)%Q.
Proof.
  exists [122; 98], 170%Q, 175%Q, 46%Q, 50%Q.
  split; [vm_compute; reflexivity|]. split; [vm_compute; reflexivity|].
  do 2 eexists. split; [vm_compute; reflexivity|]. vm_compute. reflexivity.
Qed.
Print Assumptions C12c_east_column_refuted.

(* ---- non-vacuity --------------------------------------------------------------------------------- *)
(* base 32, length 2 (32 x 32 grid), scale 32 * 32 = 1024, query GeoBox((1, 12), (30, 1)), started at its
   corner (1, 1), per-cell test through GeohashM.cell_box and PairM.intersects_shape: the flood
   returns s0 s1 s3 s2 s4 s6 sd s9 s8 = the 3 x 3 block of indices 16..18 x 16..18 (the same nine cells
   NiemeyerHasher(2, 32).hash_shape returns on /repo); every hypothesis of
   C12_hash_int_box_exact_impl is met *)
Example C12c_nonvacuous_impl :
  cfg_ok cfg32 /\ cfg_geo cfg32 /\ cfg_int cfg32 /\
  grid_nx cfg32 2 * grid_ny cfg32 2 = 1024 /\
  (0 < box_x0 cfg32 2 1 /\ box_x1 cfg32 2 30 < grid_nx cfg32 2 - 2) /\
  (0 < box_y0 cfg32 2 1 /\ box_y1 cfg32 2 12 < grid_ny cfg32 2 - 1) /\
  in_range cfg32 (1, 1)%Q /\ FloodP7.in_box 1 30 1 12 (1, 1)%Q /\
  niemeyer_flood cfg32 2 (1, 1)%Q (impl_touch cfg32 (-180 * 1024) 1024 1 30 1 12) 60
  = Some [[115; 48]; [115; 49]; [115; 51]; [115; 50]; [115; 52]; [115; 54]; [115; 100]; [115; 57]; [115; 56]] /\
  map (cell_index cfg32) [[115; 48]; [115; 49]; [115; 51]; [115; 50]; [115; 52]; [115; 54]; [115; 100]; [115; 57]; [115; 56]]
  = [(16, 16); (16, 17); (17, 17); (17, 16); (16, 18); (17, 18); (18, 18); (18, 17); (18, 16)] /\
  (* one evaluation of the test, spelled out: cell "s0" = [0, 11.25] x [0, 5.625] scaled by 1024 *)
  match cell_box cfg32 [115; 48] with
  | Ok ((nwx, nwy), (sex, sey)) =>
      (zimg 1024 nwx, zimg 1024 nwy, zimg 1024 sex, zimg 1024 sey) = (0, 5760, 11520, 0)
  | Err _ => False
  end /\
  PairM.intersects_shape (-180 * 1024) (Box (0, 5760) (11520, 0) [] None)
                                        (Box (1024, 12288) (30720, 1024) [] None) = Ok true.
Proof.
  split; [exact cfg32_ok|]. split; [exact cfg32_geo|]. split; [exact (proj1 (proj2 cfg_int_tables))|].
  split; [vm_compute; reflexivity|].
  split; [vm_compute; split; reflexivity|]. split; [vm_compute; split; reflexivity|].
  split; [unfold in_range; cbn; repeat split; apply Qle_bool_iff; reflexivity|].
  split; [unfold FloodP7.in_box; cbn; repeat split; apply Qle_bool_iff; reflexivity|].
  split; [vm_compute; reflexivity|]. split; [vm_compute; reflexivity|].
  split; vm_compute; reflexivity.
Qed.
