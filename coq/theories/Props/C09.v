(* C09 — bounds and circumscribing shapes enclose the shape (the clauses decided by proof:
   vertex bounds, unions, rectangle, centroid+farthest-vertex circles; see DESIGN for the
   clauses that are not: Welzl circle of a polygon, the 1% figure for curved bounds). *)
From GV Require Import Prelude ShapeM ShapeP BoundsM BoundsP.
Open Scope Z_scope.

Theorem C09_bounds_exact : forall vs r, bounds_of vs = Ok r ->
  (forall v, In v vs -> b_minlon r <= fst v <= b_maxlon r /\ b_minlat r <= snd v <= b_maxlat r) /\
  (exists v, In v vs /\ fst v = b_minlon r) /\ (exists v, In v vs /\ snd v = b_minlat r) /\
  (exists v, In v vs /\ fst v = b_maxlon r) /\ (exists v, In v vs /\ snd v = b_maxlat r).
Proof. exact bounds_exact. Qed.
Print Assumptions C09_bounds_exact.

Theorem C09_bounds_defined : forall v vs, exists r, bounds_of (v :: vs) = Ok r.
Proof. exact bounds_defined. Qed.
Print Assumptions C09_bounds_defined.

Theorem C09_bounds_same_set : forall vs ws r s,
  (forall v, In v vs <-> In v ws) -> bounds_of vs = Ok r -> bounds_of ws = Ok s -> r = s.
Proof. exact bounds_same_set. Qed.
Print Assumptions C09_bounds_same_set.

Theorem C09_box_bounds_exact : forall nw se, fst nw <= fst se -> snd se <= snd nw ->
  bounds_of (box_corners nw se) = Ok (box_bounds nw se).
Proof. exact box_bounds_exact. Qed.
Print Assumptions C09_box_bounds_exact.

(* multi-shape / collection bounds = union of member bounds = bounds of all vertices together *)
Theorem C09_union_of_member_bounds : forall bs r, multi_bounds bs = Ok r ->
  (forall b, In b bs -> b_minlon r <= b_minlon b /\ b_minlat r <= b_minlat b /\
                        b_maxlon b <= b_maxlon r /\ b_maxlat b <= b_maxlat r) /\
  (exists b, In b bs /\ b_minlon b = b_minlon r) /\ (exists b, In b bs /\ b_minlat b = b_minlat r) /\
  (exists b, In b bs /\ b_maxlon b = b_maxlon r) /\ (exists b, In b bs /\ b_maxlat b = b_maxlat r).
Proof. exact multi_bounds_union. Qed.
Print Assumptions C09_union_of_member_bounds.

Theorem C09_union_is_bounds_of_all_vertices : forall (vss : list (list pt)) bs r s,
  Forall2 (fun vs b => bounds_of vs = Ok b) vss bs ->
  multi_bounds bs = Ok r -> bounds_of (concat vss) = Ok s -> r = s.
Proof. exact bounds_concat_union. Qed.
Print Assumptions C09_union_is_bounds_of_all_vertices.

Theorem C09_rect_has_bounds : forall b, let '(nw, se) := rect_of_bounds b in box_bounds nw se = b.
Proof. exact rect_has_bounds. Qed.
Print Assumptions C09_rect_has_bounds.

(* for EVERY distance function: the centroid+farthest-vertex circle contains every vertex,
   touches one, and no smaller circle about that centre does *)
Theorem C09_far_circle_encloses : forall (V : Type) (dist : V -> V -> Z) c vs r,
  far_radius V dist c vs = Ok r ->
  (forall v, In v vs -> circle_contains V dist c r v = true) /\ (exists v, In v vs /\ dist v c = r).
Proof. exact far_circle_encloses. Qed.
Print Assumptions C09_far_circle_encloses.

Theorem C09_far_circle_minimal : forall (V : Type) (dist : V -> V -> Z) c vs r r',
  far_radius V dist c vs = Ok r ->
  (forall v, In v vs -> circle_contains V dist c r' v = true) -> r <= r'.
Proof. exact far_circle_minimal. Qed.
Print Assumptions C09_far_circle_minimal.

(* GeoBox (finding D10): only corners not farther than the NW corner are enclosed ... *)
Theorem C09_box_circle_encloses_partial : forall (V : Type) (dist : V -> V -> Z) c nw v,
  dist v c <= dist nw c -> circle_contains V dist c (box_radius V dist c nw) v = true.
Proof. exact box_circle_encloses_partial. Qed.
Print Assumptions C09_box_circle_encloses_partial.

(* ... and a farther corner is NOT (which is what happens away from the equator) *)
Theorem C09_box_circle_refuted_if : forall (V : Type) (dist : V -> V -> Z) c nw v,
  dist nw c < dist v c -> circle_contains V dist c (box_radius V dist c nw) v = false.
Proof. exact box_circle_refuted_if. Qed.
Print Assumptions C09_box_circle_refuted_if.

Example C09_nonvacuous :
  bounds_of [(3, 1); (-2, 7); (0, 0)] = Ok (-2, 0, 3, 7) /\
  far_radius Z (fun a b => Z.abs (a - b)) 5 [1; 9; 12] = Ok 7 /\
  circle_contains Z (fun a b => Z.abs (a - b)) 5 7 12 = true.
Proof. cbv. auto. Qed.
