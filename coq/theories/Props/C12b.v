(* C12 (continued) -- the connectivity hypothesis of [C12_hash_exact_partial] discharged for the
   most common touched sets, and the concrete neighbourhood.
   Part A (abstract integer grid, cells Z * Z, FloodP5): for a RECTANGLE of touched cells (what an
   axis-aligned box, a point, a geohash-cell box, or any shape whose touched cells fill its
   bounding window produce) and more generally for every touched set that contains the L-shaped
   path from the start cell to each of its cells, the flood fill returns EXACTLY the touched
   cells - unconditionally, for every pop order, for the 8-neighbourhood in the order of
   _get_surrounding and already for the 4 orthogonal neighbours; (w+2)*(h+2)+2 iterations suffice.
   Part B (geohash strings, FloodP6): NiemeyerHasher._get_surrounding IS that 8-neighbourhood on
   the integer (column, row) indices of the geohash grid for every cell whose 3 x 3 block is
   inside the coordinate range (away from the border: D12 and the wrap-around are outside the
   hypotheses), the index determines the cell, and so the real instance [niemeyer_flood] on a
   touch test that is a rectangle of indices returns exactly that rectangle, for bases 16/32/64
   and every length.
   Part C (FloodP7): for an axis-aligned query box the geometric per-cell test "the closed cell box
   shares a point with the closed query box" has a rectangle of indices as its truth set, so the
   flood on it returns exactly the cells that share a point with the box.
   Still NOT proved: that the implementation's per-cell test (intersects_shape, not modelled) is
   that geometric truth, and anything about non-box shapes beyond the L-convex criterion.
   This file holds only statements closed by [exact] and their Print Assumptions. *)
From Coq Require Import QArith.
From GV Require Import Prelude GeohashM GeohashP GeohashP2 FloodM FloodP FloodP3 FloodP4 FloodP5 FloodP6 FloodP7 C12.
Open Scope Z_scope.

(* ---------------------------------------------------------------- Part A: the abstract grid *)
(* a rectangle of cells is connected through itself from any of its cells, already along the
   four orthogonal neighbours *)
Theorem C12_rect_connected : forall nbr, (forall c n, In n (nbr4 c) -> In n (nbr c)) ->
  forall x0 x1 y0 y1 start c,
  touch_rect x0 x1 y0 y1 start = true -> touch_rect x0 x1 y0 y1 c = true ->
  reach gcell nbr (touch_rect x0 x1 y0 y1) start c.
Proof. exact rect_reach. Qed.
Print Assumptions C12_rect_connected.

(* more general: every touched cell whose L-shaped path from the start (along the start row to
   the cell's column, then along that column) is touched is reachable *)
Theorem C12_lconvex_connected : forall nbr, (forall c n, In n (nbr4 c) -> In n (nbr c)) ->
  forall touch start, lconvex_from touch start -> forall c, touch c = true ->
  reach gcell nbr touch start c.
Proof. exact lconvex_connected. Qed.
Print Assumptions C12_lconvex_connected.

(* hash_exact, UNCONDITIONAL on a rectangle: every neighbour function containing N/E/S/W (in
   particular nbr8 and nbr4), every pop order, every fuel for which the loop ends *)
Theorem C12_flood_rect_exact : forall nbr, (forall c n, In n (nbr4 c) -> In n (nbr c)) ->
  forall x0 x1 y0 y1 pop, pop_ok pop -> forall start fuel r,
  touch_rect x0 x1 y0 y1 start = true ->
  flood gcell gcell_eqb nbr (touch_rect x0 x1 y0 y1) pop start fuel = Some r ->
  forall c, In c r <-> touch_rect x0 x1 y0 y1 c = true.
Proof. intros nbr H x0 x1 y0 y1 pop [P1 P2]. exact (flood_rect_exact nbr H x0 x1 y0 y1 pop P1 P2). Qed.
Print Assumptions C12_flood_rect_exact.

Theorem C12_flood_rect_exact8 : forall x0 x1 y0 y1 pop, pop_ok pop -> forall start fuel r,
  touch_rect x0 x1 y0 y1 start = true ->
  flood gcell gcell_eqb nbr8 (touch_rect x0 x1 y0 y1) pop start fuel = Some r ->
  forall c, In c r <-> touch_rect x0 x1 y0 y1 c = true.
Proof. intros x0 x1 y0 y1 pop [P1 P2]. exact (flood_rect_exact nbr8 nbr4_in_nbr8 x0 x1 y0 y1 pop P1 P2). Qed.
Print Assumptions C12_flood_rect_exact8.

Theorem C12_flood_lconvex_exact : forall nbr, (forall c n, In n (nbr4 c) -> In n (nbr c)) ->
  forall touch pop, pop_ok pop -> forall start fuel r,
  lconvex_from touch start -> touch start = true ->
  flood gcell gcell_eqb nbr touch pop start fuel = Some r ->
  forall c, In c r <-> touch c = true.
Proof. intros nbr H touch pop [P1 P2]. exact (flood_lconvex_exact nbr H touch pop P1 P2). Qed.
Print Assumptions C12_flood_lconvex_exact.

(* termination + exactness on the infinite grid: (w+2)*(h+2)+2 iterations are enough *)
Theorem C12_flood_rect_terminates : forall x0 x1 y0 y1 pop, pop_ok pop -> forall start fuel,
  touch_rect x0 x1 y0 y1 start = true ->
  (Z.to_nat (x1 - x0 + 3) * Z.to_nat (y1 - y0 + 3) + 2 <= fuel)%nat ->
  exists r, flood gcell gcell_eqb nbr8 (touch_rect x0 x1 y0 y1) pop start fuel = Some r /\
            forall c, In c r <-> touch_rect x0 x1 y0 y1 c = true.
Proof. intros x0 x1 y0 y1 pop [P1 P2]. exact (flood_rect_terminates x0 x1 y0 y1 pop P1 P2). Qed.
Print Assumptions C12_flood_rect_terminates.

Theorem C12_flood_rect_terminates4 : forall x0 x1 y0 y1 pop, pop_ok pop -> forall start fuel,
  touch_rect x0 x1 y0 y1 start = true ->
  (Z.to_nat (x1 - x0 + 3) * Z.to_nat (y1 - y0 + 3) + 2 <= fuel)%nat ->
  exists r, flood gcell gcell_eqb nbr4 (touch_rect x0 x1 y0 y1) pop start fuel = Some r /\
            forall c, In c r <-> touch_rect x0 x1 y0 y1 c = true.
Proof. intros x0 x1 y0 y1 pop [P1 P2]. exact (flood_rect_terminates4 x0 x1 y0 y1 pop P1 P2). Qed.
Print Assumptions C12_flood_rect_terminates4.

(* the generic fuel bound behind it: a finite universe that contains the start cell and the
   neighbours of the start cell and of every TOUCHED cell of the universe is enough (closure
   under the neighbour function, as C12_flood_complete asks, is impossible on an infinite grid) *)
Theorem C12_flood_complete_touched : forall cell ceqb, (forall a b : cell, ceqb a b = true <-> a = b) ->
  forall nbr touch pop, pop_ok pop -> forall start U,
  (forall c, In c U -> c = start \/ touch c = true -> forall n, In n (nbr c) -> In n U) ->
  forall fuel, In start U -> (length U + 2 <= fuel)%nat ->
  exists r, flood cell ceqb nbr touch pop start fuel = Some r /\
            forall c, In c r <-> reach cell nbr touch start c.
Proof. intros cell ceqb E nbr touch pop [P1 P2]. exact (flood_complete_touched cell ceqb E nbr touch pop P1 P2). Qed.
Print Assumptions C12_flood_complete_touched.

(* ---------------------------------------------------------------- Part B: geohash strings *)
(* the index of a cell of the alphabet lies in the grid of its length *)
Theorem C12_cell_index_range : forall c, cfg_ok c -> forall s, valid c s ->
  (0 <= fst (cell_index c s) < grid_nx c (length s)) /\
  (0 <= snd (cell_index c s) < grid_ny c (length s)).
Proof. exact cell_index_range. Qed.
Print Assumptions C12_cell_index_range.

(* ... and determines the cell *)
Theorem C12_cell_index_inj : forall c, cfg_ok c -> forall s t,
  valid c s -> valid c t -> length s = length t -> cell_index c s = cell_index c t -> s = t.
Proof. exact cell_index_inj. Qed.
Print Assumptions C12_cell_index_inj.

(* _get_surrounding is the 8-neighbourhood on indices, element by element in the order of the
   Python list, for every cell whose 3 x 3 block of cells is inside the configuration's range and
   inside [-180, 180] x [-90, 90] *)
Theorem C12_surrounding_is_nbr8 : forall c, cfg_ok c -> forall gh x y ex ey,
  decode c gh = Ok (x, y, ex, ey) -> interior3 c (x, y, ex, ey) ->
  map (cell_index c) (get_surrounding c gh) = nbr8 (cell_index c gh).
Proof. exact surrounding_index. Qed.
Print Assumptions C12_surrounding_is_nbr8.

(* base 32 (configuration range = coordinate range): "not on the border of the grid" suffices *)
Theorem C12_surrounding_is_nbr8_geo : forall c, cfg_ok c -> cfg_geo c -> forall gh,
  valid c gh ->
  0 < fst (cell_index c gh) < grid_nx c (length gh) - 1 ->
  0 < snd (cell_index c gh) < grid_ny c (length gh) - 1 ->
  map (cell_index c) (get_surrounding c gh) = nbr8 (cell_index c gh).
Proof. exact surrounding_index_geo. Qed.
Print Assumptions C12_surrounding_is_nbr8_geo.

(* hash_exact for the REAL instance, unconditional on connectivity: if the per-cell test is (on
   the strings of the hasher's length) a rectangle of indices whose cells are interior and that
   contains the start cell, the flood returns exactly the cells of the rectangle *)
Theorem C12_niemeyer_rect_exact : forall c, cfg_ok c -> forall len touch x0 x1 y0 y1,
  (forall gh, valid_len c len gh -> touch gh = touch_rect x0 x1 y0 y1 (cell_index c gh)) ->
  (forall gh r, valid_len c len gh -> touch_rect x0 x1 y0 y1 (cell_index c gh) = true ->
                decode c gh = Ok r -> interior3 c r) ->
  forall start, touch_rect x0 x1 y0 y1 (cell_index c (encode c start len)) = true ->
  forall fuel r, niemeyer_flood c len start touch fuel = Some r ->
  forall gh, In gh r <-> valid_len c len gh /\ touch_rect x0 x1 y0 y1 (cell_index c gh) = true.
Proof. exact niemeyer_rect_exact. Qed.
Print Assumptions C12_niemeyer_rect_exact.

Theorem C12_niemeyer_rect_terminates : forall c, cfg_ok c -> forall len touch x0 x1 y0 y1,
  (forall gh, valid_len c len gh -> touch gh = touch_rect x0 x1 y0 y1 (cell_index c gh)) ->
  (forall gh r, valid_len c len gh -> touch_rect x0 x1 y0 y1 (cell_index c gh) = true ->
                decode c gh = Ok r -> interior3 c r) ->
  forall start, touch_rect x0 x1 y0 y1 (cell_index c (encode c start len)) = true ->
  forall fuel, (length (all_strs (charset c) len) + 2 <= fuel)%nat ->
  exists r, niemeyer_flood c len start touch fuel = Some r /\
    forall gh, In gh r <-> valid_len c len gh /\ touch_rect x0 x1 y0 y1 (cell_index c gh) = true.
Proof. exact niemeyer_rect_terminates. Qed.
Print Assumptions C12_niemeyer_rect_terminates.

(* base 32: the rectangle only has to stay off the outermost ring of the grid *)
Theorem C12_niemeyer_rect_exact_geo : forall c, cfg_ok c -> cfg_geo c ->
  forall len touch x0 x1 y0 y1 start fuel r,
  (forall gh, valid_len c len gh -> touch gh = touch_rect x0 x1 y0 y1 (cell_index c gh)) ->
  (0 < x0 /\ x1 < grid_nx c len - 1) -> (0 < y0 /\ y1 < grid_ny c len - 1) ->
  touch_rect x0 x1 y0 y1 (cell_index c (encode c start len)) = true ->
  niemeyer_flood c len start touch fuel = Some r ->
  forall gh, In gh r <-> valid_len c len gh /\ touch_rect x0 x1 y0 y1 (cell_index c gh) = true.
Proof. exact niemeyer_rect_exact_geo. Qed.
Print Assumptions C12_niemeyer_rect_exact_geo.

Theorem C12_niemeyer_rect_terminates_geo : forall c, cfg_ok c -> cfg_geo c ->
  forall len touch x0 x1 y0 y1 start fuel,
  (forall gh, valid_len c len gh -> touch gh = touch_rect x0 x1 y0 y1 (cell_index c gh)) ->
  (0 < x0 /\ x1 < grid_nx c len - 1) -> (0 < y0 /\ y1 < grid_ny c len - 1) ->
  touch_rect x0 x1 y0 y1 (cell_index c (encode c start len)) = true ->
  (length (all_strs (charset c) len) + 2 <= fuel)%nat ->
  exists r, niemeyer_flood c len start touch fuel = Some r /\
    forall gh, In gh r <-> valid_len c len gh /\ touch_rect x0 x1 y0 y1 (cell_index c gh) = true.
Proof. exact niemeyer_rect_terminates_geo. Qed.
Print Assumptions C12_niemeyer_rect_terminates_geo.

(* ---------------------------------------------------------------- Part C: an axis-aligned box *)
(* meaning of the box test: the closed cell and the closed query box have a common point *)
Theorem C12_box_touch_spec : forall c, cfg_ok c -> forall a b ya yb gh, (a <= b)%Q -> (ya <= yb)%Q ->
  (box_touch c a b ya yb gh = true <->
   exists r, decode c gh = Ok r /\ exists p, in_cell p r /\ in_box a b ya yb p).
Proof. exact box_touch_spec. Qed.
Print Assumptions C12_box_touch_spec.

(* its truth set on the strings of the hasher's length is a rectangle of indices *)
Theorem C12_box_touch_is_rect : forall c, cfg_ok c -> forall len a b ya yb gh,
  valid_len c len gh ->
  box_touch c a b ya yb gh =
  touch_rect (box_x0 c len a) (box_x1 c len b) (box_y0 c len ya) (box_y1 c len yb) (cell_index c gh).
Proof. exact box_touch_is_rect. Qed.
Print Assumptions C12_box_touch_is_rect.

(* hashing an axis-aligned box returns exactly the cells that share a point with it (start point
   in the box - the implementation starts at a corner; touched cells interior) *)
Theorem C12_niemeyer_box_exact : forall c, cfg_ok c -> forall len a b ya yb start fuel r,
  in_range c start -> in_box a b ya yb start ->
  (forall gh r', valid_len c len gh -> box_touch c a b ya yb gh = true -> decode c gh = Ok r' ->
                 interior3 c r') ->
  niemeyer_flood c len start (box_touch c a b ya yb) fuel = Some r ->
  forall gh, In gh r <-> valid_len c len gh /\ box_touch c a b ya yb gh = true.
Proof. exact niemeyer_box_exact. Qed.
Print Assumptions C12_niemeyer_box_exact.

Theorem C12_niemeyer_box_exact_geo : forall c, cfg_ok c -> forall len a b ya yb start fuel r,
  cfg_geo c -> in_range c start -> in_box a b ya yb start ->
  (0 < box_x0 c len a /\ box_x1 c len b < grid_nx c len - 1) ->
  (0 < box_y0 c len ya /\ box_y1 c len yb < grid_ny c len - 1) ->
  niemeyer_flood c len start (box_touch c a b ya yb) fuel = Some r ->
  forall gh, In gh r <-> valid_len c len gh /\ box_touch c a b ya yb gh = true.
Proof. exact niemeyer_box_exact_geo. Qed.
Print Assumptions C12_niemeyer_box_exact_geo.

Theorem C12_niemeyer_box_terminates_geo : forall c, cfg_ok c -> forall len a b ya yb start fuel,
  cfg_geo c -> in_range c start -> in_box a b ya yb start ->
  (0 < box_x0 c len a /\ box_x1 c len b < grid_nx c len - 1) ->
  (0 < box_y0 c len ya /\ box_y1 c len yb < grid_ny c len - 1) ->
  (length (all_strs (charset c) len) + 2 <= fuel)%nat ->
  exists r, niemeyer_flood c len start (box_touch c a b ya yb) fuel = Some r /\
            forall gh, In gh r <-> valid_len c len gh /\ box_touch c a b ya yb gh = true.
Proof. exact niemeyer_box_terminates_geo. Qed.
Print Assumptions C12_niemeyer_box_terminates_geo.

(* ---------------------------------------------------------------- non-vacuity *)
(* a 3 x 2 rectangle (columns 2..4, rows 5..6), start (3, 5) inside, queue popped at the head,
   fuel = (3+2)*(2+2)+2 as in C12_flood_rect_terminates: exactly the 6 cells, with 8 and with 4
   neighbours; the hypotheses of the theorems are met *)
Example C12b_nonvacuous_rect :
  pop_ok (@pop_head gcell) /\ touch_rect 2 4 5 6 (3, 5) = true /\
  (Z.to_nat (4 - 2 + 3) * Z.to_nat (6 - 5 + 3) + 2 = 22)%nat /\
  flood gcell gcell_eqb nbr8 (touch_rect 2 4 5 6) pop_head (3, 5) 22
  = Some [(3, 5); (3, 6); (4, 6); (4, 5); (2, 5); (2, 6)] /\
  flood gcell gcell_eqb nbr4 (touch_rect 2 4 5 6) pop_head (3, 5) 22
  = Some [(3, 5); (3, 6); (4, 5); (2, 5); (4, 6); (2, 6)].
Proof.
  split; [split; [apply @pop_head_none|apply @pop_head_some]|].
  split; [reflexivity|]. split; [reflexivity|]. split; vm_compute; reflexivity.
Qed.

(* an L-convex set that is not a rectangle: a row 0..3 with columns of heights 3, 1, 2, 1 on it
   (a histogram), start (1, 0); the flood returns its 7 cells *)
Example C12b_nonvacuous_lconvex :
  let touch := fun c : gcell =>
    (0 <=? fst c) && (fst c <=? 3) && (0 <=? snd c) &&
    (snd c <=? (if fst c =? 0 then 2 else if fst c =? 2 then 1 else 0)) in
  lconvex_from touch (1, 0) /\ touch (1, 0) = true /\
  flood gcell gcell_eqb nbr4 touch pop_head (1, 0) 40
  = Some [(1, 0); (2, 0); (0, 0); (2, 1); (3, 0); (0, 1); (0, 2)].
Proof.
  cbv zeta. split; [|split; [reflexivity|vm_compute; reflexivity]].
  intros [cx cy] H. unfold lpath_touched, between. cbn [fst snd] in *.
  split; intros z B; cbn [fst snd]; destr_bool_ifs; lia.
Qed.

(* the concrete neighbourhood computes: base 32, "s3" is cell (17, 17) of the 32 x 32 grid of
   length 2, interior; its eight neighbours in the order of _get_surrounding *)
Example C12b_nonvacuous_surrounding :
  cfg_ok cfg32 /\ cfg_geo cfg32 /\ valid cfg32 [115; 51] /\
  cell_index cfg32 [115; 51] = (17, 17) /\ grid_nx cfg32 2 = 32 /\ grid_ny cfg32 2 = 32 /\
  map (cell_index cfg32) (get_surrounding cfg32 [115; 51])
  = [(17, 18); (18, 18); (18, 17); (18, 16); (17, 16); (16, 16); (16, 17); (16, 18)].
Proof.
  split; [exact cfg32_ok|]. split; [exact cfg32_geo|].
  split; [intros ch [<-|[<-|[]]]; vm_compute; tauto|].
  repeat split; vm_compute; reflexivity.
Qed.

(* base 16 (latitude range -180..180, so interior3 is not implied by the index): "c0" is cell
   (8, 8) of the 16 x 16 grid, its 3 x 3 block is inside [-180, 180] x [-90, 90] *)
Example C12b_nonvacuous_surrounding16 :
  exists x y ex ey, decode cfg16 [99; 48] = Ok (x, y, ex, ey) /\ interior3 cfg16 (x, y, ex, ey) /\
  cell_index cfg16 [99; 48] = (8, 8) /\
  map (cell_index cfg16) (get_surrounding cfg16 [99; 48])
  = [(8, 9); (9, 9); (9, 8); (9, 7); (8, 7); (7, 7); (7, 8); (7, 9)].
Proof.
  do 4 eexists. split; [vm_compute; reflexivity|].
  split; [unfold interior3; repeat split; apply Qle_bool_iff; vm_compute; reflexivity|].
  split; vm_compute; reflexivity.
Qed.

(* the real instance on a 3 x 2 rectangle of indices (columns 16..18, rows 16..17 of the base-32
   length-2 grid), start point (1, 1) in cell "s0" = (16, 16): the flood returns the 6 strings
   s0 s1 s3 s2 s9 s8, whose indices are the 6 cells; the hypotheses of
   C12_niemeyer_rect_exact_geo are met *)
Example C12b_nonvacuous_niemeyer_rect :
  let touch := fun gh => touch_rect 16 18 16 17 (cell_index cfg32 gh) in
  (0 < 16 /\ 18 < grid_nx cfg32 2 - 1) /\ (0 < 16 /\ 17 < grid_ny cfg32 2 - 1) /\
  touch_rect 16 18 16 17 (cell_index cfg32 (encode cfg32 (1, 1)%Q 2)) = true /\
  niemeyer_flood cfg32 2 (1, 1)%Q touch 40
  = Some [[115; 48]; [115; 49]; [115; 51]; [115; 50]; [115; 57]; [115; 56]] /\
  map (cell_index cfg32) [[115; 48]; [115; 49]; [115; 51]; [115; 50]; [115; 57]; [115; 56]]
  = [(16, 16); (16, 17); (17, 17); (17, 16); (18, 17); (18, 16)].
Proof.
  cbv zeta. split; [vm_compute; split; reflexivity|]. split; [vm_compute; split; reflexivity|].
  repeat split; vm_compute; reflexivity.
Qed.

(* the box 1 <= lon <= 30, 1 <= lat <= 12 at base 32, length 2, started at its corner (1, 1): index
   rectangle 16..18 x 16..18 (interior of the 32 x 32 grid), the flood returns its 9 cells *)
Example C12b_nonvacuous_box :
  in_range cfg32 (1, 1)%Q /\ in_box 1 30 1 12 (1, 1)%Q /\
  (box_x0 cfg32 2 1, box_x1 cfg32 2 30, box_y0 cfg32 2 1, box_y1 cfg32 2 12) = (16, 18, 16, 18) /\
  option_map (map (cell_index cfg32)) (niemeyer_flood cfg32 2 (1, 1)%Q (box_touch cfg32 1 30 1 12) 60)
  = Some [(16, 16); (16, 17); (17, 17); (17, 16); (16, 18); (17, 18); (18, 18); (18, 17); (18, 16)].
Proof.
  split; [unfold in_range; cbn; repeat split; apply Qle_bool_iff; reflexivity|].
  split; [unfold in_box; cbn; repeat split; apply Qle_bool_iff; reflexivity|].
  split; vm_compute; reflexivity.
Qed.
