(* C14 — GeoJSON export is RFC 7946-shaped and round-trips without touching the input.
   This file holds only statements closed by [exact] and their Print Assumptions. *)
From Coq Require Import String.
From GV Require Import Prelude RingM GeoJsonM GeoJsonP.
Open Scope string_scope.
Open Scope Z_scope.

Theorem C14_import_pure : forall half k doc s doc',
  from_geojson half k doc = Ok (s, doc') -> doc' = doc.
Proof. exact import_pure. Qed.
Print Assumptions C14_import_pure.
