(* C14 — GeoJSON export is RFC 7946-shaped and round-trips without touching the input.
   This file holds only statements closed by [exact] and their Print Assumptions.
   Model: Model/RingM.v (rings, orientation, constructor, ==) and Model/GeoJsonM.v
   (to_geojson / from_geojson / parse_geojson / collections).  [half] is 180 degrees in the
   integer units of the coordinates; [span_ok half r]: the vertices of r lie within 180 degrees of
   longitude of each other (no edge is re-bounded across the antimeridian). *)
From Coq Require Import String.
From GV Require Import Prelude RingM RingP GeoJsonM GeoJsonP.
Open Scope string_scope.
Open Scope Z_scope.

(* --- orientation: the code's test is the sign of the shoelace area --- *)

(* sum (x2-x1)(y2+y1) over the edges (as the code forms them) = -2 * signed area *)
Theorem C14_shoelace : forall half r, span_ok half r -> xy_closed r ->
  ccw_sum half r = - area2 r.
Proof. exact shoelace. Qed.
Print Assumptions C14_shoelace.

(* for any ring (closed or not) the code measures the ring closed by its first vertex *)
Theorem C14_shoelace_general : forall half r, span_ok half r ->
  ccw_sum half r = - area2 (r ++ firstn 1 r)%list.
Proof. exact shoelace_general. Qed.
Print Assumptions C14_shoelace_general.

Theorem C14_is_ccw_spec : forall half r, span_ok half r -> xy_closed r ->
  (is_ccw half r = true <-> 0 <= area2 r).
Proof. exact is_ccw_area. Qed.
Print Assumptions C14_is_ccw_spec.

(* GeoPolygon.__init__: the stored outline is closed, keeps every vertex count, and is
   counter-clockwise (area >= 0) — clockwise (area <= 0) with _is_hole *)
Theorem C14_constructor_normalises : forall half is_hole r, span_ok half r ->
  let o := norm_ring half is_hole r in
  closedb o = true /\ span_ok half o /\ (length r <= length o)%nat /\
  (if is_hole then area2 o <= 0 else (0 <= area2 o /\ is_ccw half o = true)).
Proof. exact norm_ring_spec. Qed.
Print Assumptions C14_constructor_normalises.

(* exterior ring counter-clockwise, holes clockwise, all closed: linear_rings of any
   GeoPolygon built from vertex lists (this is what to_geojson writes, see C14_export_geometry) *)
Theorem C14_exterior_ccw_holes_cw : forall half o hs,
  span_ok half o -> Forall (span_ok half) hs ->
  let p := mk_polygon half o (map (mk_hole half) hs) in
  match linear_rings p with
  | [] => False
  | shell :: holes =>
      closedb shell = true /\ 0 <= area2 shell /\
      Forall (fun h => closedb h = true /\ area2 h <= 0) holes
  end.
Proof. exact exterior_ccw_holes_cw. Qed.
Print Assumptions C14_exterior_ccw_holes_cw.

(* a GeoBox whose nw corner really is north-west of se: closed and counter-clockwise *)
Theorem C14_box_ccw : forall nw se, lon nw <= lon se -> lat se <= lat nw ->
  closedb (box_ring nw se) = true /\ 0 <= area2 (box_ring nw se).
Proof. exact box_ring_ccw. Qed.
Print Assumptions C14_box_ccw.

(* --- rings_closed --- *)

Theorem C14_rings_closed_polygon : forall half orc k o hs, span_ok half o -> Forall (span_ok half) hs ->
  all_closed (geom_rings orc k (GPoly (mk_polygon half o (map (mk_hole half) hs)))).
Proof. exact rings_closed_polygon. Qed.
Print Assumptions C14_rings_closed_polygon.

Theorem C14_rings_closed_box : forall orc k nw se hs, all_closed hs ->
  all_closed (geom_rings orc k (GBox nw se hs)).
Proof. exact rings_closed_box. Qed.
Print Assumptions C14_rings_closed_box.

(* circle / ellipse: CONDITIONAL on the sampled boundary (oracle) being closed — a float fact
   observed by the correspondence, not proved *)
Theorem C14_rings_closed_round_conditional : forall orc k id hs,
  closedb (o_outer orc id k) = true -> all_closed hs -> all_closed (geom_rings orc k (GRound id hs)).
Proof. exact rings_closed_round. Qed.
Print Assumptions C14_rings_closed_round_conditional.

(* GeoRing: closed by construction (the first sample is appended), whatever the oracle returns *)
Theorem C14_rings_closed_ring : forall orc k id hs, all_closed hs ->
  all_closed (geom_rings orc k (GRingFull id hs)).
Proof. exact rings_closed_ringfull. Qed.
Print Assumptions C14_rings_closed_ring.

Theorem C14_rings_closed_wedge : forall orc k id hs, o_outer orc id k <> [] -> all_closed hs ->
  all_closed (geom_rings orc k (GWedge id hs)).
Proof. exact rings_closed_wedge. Qed.
Print Assumptions C14_rings_closed_wedge.

(* --- export_shape --- *)

(* a Feature with the geometry, the merged properties, and the extra keyword members *)
Theorem C14_export_shape : forall orc s ups k kw, kw_ok kw ->
  exists doc, to_geojson orc s ups k kw = JObj doc /\
    jget "type" doc = Some (JStr "Feature") /\
    jget "geometry" doc = Some (geometry orc k (sgeom s)) /\
    jget "properties" doc = Some (JObj (exported_props s ups)) /\
    (forall key v, jget key kw = Some v -> NoDup (map fst kw) -> jget key doc = Some v).
Proof. exact export_feature. Qed.
Print Assumptions C14_export_shape.

Theorem C14_export_geometry : forall orc k g, exists C,
  geometry orc k g = JObj [("type", JStr (geom_type g)); ("coordinates", C)].
Proof. exact export_geometry_type. Qed.
Print Assumptions C14_export_geometry.

(* a position is [lon, lat] or [lon, lat, z] (z non-zero) *)
Theorem C14_export_position : forall c,
  position c = JArr [JFloat (lon c); JFloat (lat c)] \/
  exists z, cz c = Some z /\ z <> 0 /\ position c = JArr [JFloat (lon c); JFloat (lat c); JFloat z].
Proof. exact position_shape. Qed.
Print Assumptions C14_export_position.

(* a collection is a FeatureCollection whose n-th feature is the n-th shape's Feature with id = n *)
Theorem C14_export_collection : forall orc l ups k, exists fs,
  fc_to_geojson orc l ups k = JObj [("type", JStr "FeatureCollection"); ("features", JArr fs)] /\
  length fs = length l /\
  forall n s, nth_error l n = Some s ->
    nth_error fs n = Some (to_geojson orc s ups k [("id", JInt (Z.of_nat n))]) /\
    exists doc, to_geojson orc s ups k [("id", JInt (Z.of_nat n))] = JObj doc /\
                jget "id" doc = Some (JInt (Z.of_nat n)) /\ jget "type" doc = Some (JStr "Feature").
Proof. exact export_collection. Qed.
Print Assumptions C14_export_collection.

(* nothing but JSON values in the export when the caller adds none *)
Theorem C14_export_serialisable : forall orc s ups k kw,
  dict_pure (ups_dict ups) = true -> dict_pure kw = true ->
  json_pure (to_geojson orc s ups k kw) = true.
Proof. exact export_serialisable. Qed.
Print Assumptions C14_export_serialisable.

(* --- props_merge --- *)

Theorem C14_props_merge : forall s u k, NoDup (map fst u) ->
  jget k (exported_props s (Some u)) =
  match jget k u with
  | Some v => Some v
  | None => option_map sanitize (jget k (properties s))
  end.
Proof. exact props_merge. Qed.
Print Assumptions C14_props_merge.

Theorem C14_props_dt_fields : forall g a b p,
  jget "datetime_start" (properties (mkshape g (Some (a, b)) p)) = Some (JDt a) /\
  jget "datetime_end" (properties (mkshape g (Some (a, b)) p)) = Some (JDt b).
Proof. exact props_dt_fields. Qed.
Print Assumptions C14_props_dt_fields.

Theorem C14_props_user_fields : forall g dt p k,
  String.eqb k "datetime_start" = false -> String.eqb k "datetime_end" = false ->
  jget k (properties (mkshape g dt p)) = jget k p.
Proof. exact props_user_fields. Qed.
Print Assumptions C14_props_user_fields.

(* --- round trip --- *)

(* every GeoPolygon built from vertex lists (in span, z never 0, holes of non-zero area) is
   well-formed, so the round-trip theorem applies to it *)
Theorem C14_constructed_polygon_wf : forall half o hs,
  span_ok half o -> (2 <= length o)%nat -> ring_zok o ->
  Forall (fun h => span_ok half h /\ (2 <= length h)%nat /\ ring_zok h /\ area2 (close_ring h) <> 0) hs ->
  polygon_wf half true (mk_polygon half o (map (mk_hole half) hs)).
Proof. exact constructed_polygon_wf. Qed.
Print Assumptions C14_constructed_polygon_wf.

Theorem C14_constructed_member_wf : forall half o hs,
  span_ok half o -> (2 <= length o)%nat -> ring_zok o ->
  Forall (fun h => span_ok half h /\ (2 <= length h)%nat /\ ring_zok h) hs ->
  polygon_wf half false (mk_polygon half o (map (mk_hole half) hs)).
Proof. exact constructed_member_wf. Qed.
Print Assumptions C14_constructed_member_wf.

(* export then import, for the six importable kinds (any number of vertices, holes, parts):
   the very same geometry, the same dt, the properties merged with the override; the
   document comes back unchanged *)
Theorem C14_geojson_roundtrip : forall half orc s ups k kw kd,
  kind_of (sgeom s) = Some kd -> geom_wf half (sgeom s) -> dt_wf (sdt s) ->
  dict_pure (sprops s) = true -> no_reserved (sprops s) -> no_reserved (ups_dict ups) -> kw_ok kw ->
  from_geojson half kd (to_geojson orc s ups k kw) =
  Ok (mkshape (sgeom s) (sdt s) (dmerge (sprops s) (ups_dict ups)), to_geojson orc s ups k kw).
Proof. exact geojson_roundtrip. Qed.
Print Assumptions C14_geojson_roundtrip.

(* ... and the imported shape == the original (both ways), with the library's own == *)
Theorem C14_geojson_roundtrip_eq : forall half orc s ups k kw kd,
  kind_of (sgeom s) = Some kd -> geom_wf half (sgeom s) -> dt_wf (sdt s) ->
  dict_pure (sprops s) = true -> no_reserved (sprops s) -> no_reserved (ups_dict ups) -> kw_ok kw ->
  exists s', from_geojson half kd (to_geojson orc s ups k kw) = Ok (s', to_geojson orc s ups k kw) /\
             shape_eqb s' s = true /\ shape_eqb s s' = true /\ sdt s' = sdt s /\
             sprops s' = dmerge (sprops s) (ups_dict ups).
Proof. exact geojson_roundtrip_eq. Qed.
Print Assumptions C14_geojson_roundtrip_eq.

(* the type-dispatching parser reaches the same from_geojson *)
Theorem C14_parse_dispatch : forall half orc s ups k kw kd,
  kind_of (sgeom s) = Some kd -> kw_ok kw ->
  parse_geojson half (to_geojson orc s ups k kw) =
  match from_geojson half kd (to_geojson orc s ups k kw) with
  | Ok (s', d) => Ok (PShape s', d)
  | Err e => Err e
  end.
Proof. exact parse_dispatch. Qed.
Print Assumptions C14_parse_dispatch.

Theorem C14_collection_roundtrip : forall half orc l ups k,
  Forall (shape_ok half) l -> no_reserved (ups_dict ups) ->
  fc_from_geojson half (fc_to_geojson orc l ups k) =
  Ok (map (reimported ups) l, fc_to_geojson orc l ups k).
Proof. exact collection_roundtrip. Qed.
Print Assumptions C14_collection_roundtrip.

(* D14 (known finding): a coordinate with z = 0 does not survive the round trip *)
Theorem C14_z_zero_roundtrip_refuted :
  exists orc s s' d, kind_of (sgeom s) = Some KPoint /\
    from_geojson 720 KPoint (to_geojson orc s None None []) = Ok (s', d) /\ shape_eqb s' s = false.
Proof. exact z_zero_roundtrip_refuted. Qed.
Print Assumptions C14_z_zero_roundtrip_refuted.

(* --- the import leaves the caller's document alone --- *)

Theorem C14_import_pure : forall half k doc s doc',
  from_geojson half k doc = Ok (s, doc') -> doc' = doc.
Proof. exact import_pure. Qed.
Print Assumptions C14_import_pure.

Theorem C14_parse_pure : forall half doc p doc', parse_geojson half doc = Ok (p, doc') -> doc' = doc.
Proof. exact parse_pure. Qed.
Print Assumptions C14_parse_pure.

Theorem C14_import_twice_equal : forall half k doc s doc',
  from_geojson half k doc = Ok (s, doc') -> from_geojson half k doc' = Ok (s, doc').
Proof. exact import_twice_equal. Qed.
Print Assumptions C14_import_twice_equal.

(* the pinned code (before repair D15: properties popped in place) fails both *)
Theorem C14_import_pure_refuted_without_copy :
  exists doc s doc' s2 doc2,
    from_geojson_gen 720 false KPoint doc = Ok (s, doc') /\ doc' <> doc /\
    from_geojson_gen 720 false KPoint doc' = Ok (s2, doc2) /\ sdt s = Some (5, 5) /\ sdt s2 = None.
Proof. exact import_pure_refuted_without_copy. Qed.
Print Assumptions C14_import_pure_refuted_without_copy.

(* non-vacuity: a polygon with a clockwise, unclosed outline and a hole, an interval dt and nested
   properties meets every hypothesis above, and the round trip computes *)
Definition ex_sq : ring := [mkc 0 0 None; mkc 0 40 None; mkc 40 40 None; mkc 40 0 None].
Definition ex_hole : ring := [mkc 8 8 (Some 3); mkc 12 8 (Some 3); mkc 12 12 (Some 3); mkc 8 8 (Some 3)].
Definition ex_shape : shape :=
  mkshape (GPoly (mk_polygon 720 ex_sq (map (mk_hole 720) [ex_hole]))) (Some (5, 9))
          [("a", JInt 1); ("n", JObj [("l", JArr [JFloat 10; JNull])])].
Definition ex_orc : oracle := mkoracle (fun _ _ => []) (fun _ _ => []).

Example C14_nonvacuous :
  (forall a b, In a ex_sq -> In b ex_sq -> Z.abs (lon a - lon b) <= 720) /\
  is_ccw 720 ex_sq = false /\ closedb ex_sq = false /\ area2 (close_ring ex_hole) <> 0 /\
  kind_of (sgeom ex_shape) = Some KPoly /\ dt_wf (sdt ex_shape) /\
  dict_pure (sprops ex_shape) = true /\ no_reserved (sprops ex_shape) /\
  kw_ok [("id", JInt 7)] /\
  (exists d, from_geojson 720 KPoly (to_geojson ex_orc ex_shape (Some [("a", JInt 2)]) None [("id", JInt 7)]) =
             Ok (mkshape (sgeom ex_shape) (Some (5, 9))
                         [("a", JInt 2); ("n", JObj [("l", JArr [JFloat 10; JNull])])], d)) /\
  length (outline (mk_polygon 720 ex_sq [])) = 5%nat.
Proof.
  split.
  { intros a b Ha Hb. cbn in Ha, Hb.
    repeat (destruct Ha as [<-|Ha]; [repeat (destruct Hb as [<-|Hb]; [cbn; lia|]); destruct Hb|]). destruct Ha. }
  vm_compute. repeat split; try discriminate. eexists. reflexivity.
Qed.
