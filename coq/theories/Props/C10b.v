(* C10b - the convex hull polygon, seen through the library's own point-in-polygon test (C01).
   This file holds only statements closed by [exact] and their Print Assumptions.

   [hull l] (HullM) is the closed ring v0 :: mid ++ [v0] that GeoPolygon's constructor receives
   and keeps unchanged (C10_entry_points); [pip w p ring] / [poly_contains] (GeomM) are
   GeoPolygon._point_in_polygon / contains_coordinate on exactly that list.  HullM.cross and
   GeomM.cross are the same function ([C10_cross_same]); below [cross] is HullM's, as in C10.v.
   "Consecutive" vertices a, b of the ring: hull l = l1 ++ a :: b :: l2.
   Hypothesis everywhere: the inputs are not all collinear (otherwise the ring is degenerate,
   C10_hull_collinear).  Side conditions of pip (C01): no input west of the ray end w (= -180)
   and the query not west of it. *)
From Coq Require Import Sorted Permutation.
From GV Require Import Prelude GeomM GeomP GeomP2 GeomP3 GeomP4 GeomP6 GeomP7.
From GV Require Import HullM HullP HullP2 HullP3 HullP4 HullP5 HullP6 HullP7.
Open Scope Z_scope.

Theorem C10_cross_same : forall a b c, HullM.cross a b c = GeomM.cross a b c.
Proof. exact hcross. Qed.
Print Assumptions C10_cross_same.

(* ---- the general link: weak convexity + strict turns + no repeat = strictly convex position -- *)
Theorem C10_weak_turns_strict : forall o, NoDup o ->
  (forall e v, In e (cyc_edges o) -> In v o -> 0 <= GeomM.cross (fst e) (snd e) v) ->
  (forall a b c, In (a, b) (cyc_edges o) -> In (b, c) (cyc_edges o) -> 0 < GeomM.cross a b c) ->
  NoDup o /\
  forall e v, In e (cyc_edges o) -> In v o -> v <> fst e -> v <> snd e ->
              0 < GeomM.cross (fst e) (snd e) v.
Proof. exact weak_turns_strict. Qed.
Print Assumptions C10_weak_turns_strict.

(* the same on the closed list, in the form C10_hull_meets_spec delivers its clauses *)
Theorem C10_closed_ring_ccw3 : forall o, (2 <= length o)%nat -> NoDup o ->
  (forall v, In v o -> forall l1 a b l2, reclose o = l1 ++ a :: b :: l2 -> 0 <= GeomM.cross a b v) ->
  (forall l1 a b x l2, reclose o ++ [nth 1 (reclose o) (0, 0)] = l1 ++ a :: b :: x :: l2 ->
                       0 < GeomM.cross a b x) ->
  ccw3 o.
Proof. exact closed_ring_ccw3. Qed.
Print Assumptions C10_closed_ring_ccw3.

(* a point weakly left of every edge of a strictly convex ring is on it or strictly inside *)
Theorem C10_convex_closed_cases : forall p o, (3 <= length o)%nat -> ccw3 o ->
  (forall e, In e (cyc_edges o) -> 0 <= GeomM.cross (fst e) (snd e) p) ->
  on_boundary p o \/ forall e, In e (cyc_edges o) -> 0 < GeomM.cross (fst e) (snd e) p.
Proof. exact convex_closed_cases. Qed.
Print Assumptions C10_convex_closed_cases.

(* ---- the hull ring is in strictly convex position -------------------------------------------- *)
(* every three vertices of the open ring, taken in ring order, turn strictly left
   (GeomP7.ccw3, see C01_ccw3_spec); the stored list is that open ring closed by its first vertex *)
Theorem C10_hull_ccw3 : forall l,
  (exists p q r, In p l /\ In q l /\ In r l /\ cross p q r <> 0) ->
  ccw3 (removelast (hull l)) /\ hull l = reclose (removelast (hull l)) /\
  (3 <= length (removelast (hull l)))%nat.
Proof. exact hull_ccw3. Qed.
Print Assumptions C10_hull_ccw3.

(* ---- point-in-polygon of the hull polygon = the geometric open convex hull -------------------- *)
(* for ANY query point p (input or not) *)
Theorem C10_hull_strict_in_spec : forall l p,
  (exists p q r, In p l /\ In q l /\ In r l /\ cross p q r <> 0) ->
  (strict_in p (hull l) <-> forall l1 a b l2, hull l = l1 ++ a :: b :: l2 -> 0 < cross a b p).
Proof. exact hull_strict_in_spec. Qed.
Print Assumptions C10_hull_strict_in_spec.

Theorem C10_hull_pip_spec : forall w l p,
  (exists p q r, In p l /\ In q l /\ In r l /\ cross p q r <> 0) ->
  (forall v, In v l -> w <= fst v) -> w <= fst p ->
  (pip w p (hull l) = true <-> forall l1 a b l2, hull l = l1 ++ a :: b :: l2 -> 0 < cross a b p).
Proof. exact hull_pip_spec. Qed.
Print Assumptions C10_hull_pip_spec.

Theorem C10_hull_poly_contains_spec : forall w l p,
  (exists p q r, In p l /\ In q l /\ In r l /\ cross p q r <> 0) ->
  (forall v, In v l -> w <= fst v) -> w <= fst p ->
  (poly_contains w (hull l) [] p = true <->
   forall l1 a b l2, hull l = l1 ++ a :: b :: l2 -> 0 < cross a b p).
Proof. exact hull_poly_contains_spec. Qed.
Print Assumptions C10_hull_poly_contains_spec.

(* ---- every input coordinate is inside the hull polygon or on its outline, exactly one --------- *)
Theorem C10_hull_inputs_inside : forall w l p,
  (exists p q r, In p l /\ In q l /\ In r l /\ cross p q r <> 0) ->
  (forall v, In v l -> w <= fst v) -> In p l ->
  (on_boundary p (hull l) /\ pip w p (hull l) = false) \/
  (~ on_boundary p (hull l) /\ pip w p (hull l) = true).
Proof. exact hull_inputs_inside. Qed.
Print Assumptions C10_hull_inputs_inside.

Theorem C10_hull_inputs_pip : forall w l p,
  (exists p q r, In p l /\ In q l /\ In r l /\ cross p q r <> 0) ->
  (forall v, In v l -> w <= fst v) -> In p l ->
  ~ on_boundary p (hull l) -> pip w p (hull l) = true.
Proof. exact hull_inputs_pip. Qed.
Print Assumptions C10_hull_inputs_pip.

(* a hull vertex is on the outline, so the polygon does not contain it (C01: boundary excluded) *)
Theorem C10_hull_vertex_pip_false : forall w l v,
  (exists p q r, In p l /\ In q l /\ In r l /\ cross p q r <> 0) ->
  (forall v, In v l -> w <= fst v) -> In v (hull l) ->
  on_boundary v (hull l) /\ pip w v (hull l) = false.
Proof. exact hull_vertex_pip_false. Qed.
Print Assumptions C10_hull_vertex_pip_false.

(* ---- non-vacuity: interior inputs, inputs on edges, repeats; hull by vm_compute ---------------- *)
Example C10b_nonvacuous_hull_pip :
  (exists p q r, In p ex_cloud /\ In q ex_cloud /\ In r ex_cloud /\ cross p q r <> 0) /\
  (forall v, In v ex_cloud -> -360 <= fst v) /\
  hull ex_cloud = [(0, 0); (4, 0); (4, 3); (0, 3); (0, 0)] /\
  ccw3 (removelast (hull ex_cloud)) /\
  In (1, 1) ex_cloud /\ pip (-360) (1, 1) (hull ex_cloud) = true /\
  In (2, 2) ex_cloud /\ pip (-360) (2, 2) (hull ex_cloud) = true /\
  In (2, 0) ex_cloud /\ pip (-360) (2, 0) (hull ex_cloud) = false /\
  In (0, 0) ex_cloud /\ pip (-360) (0, 0) (hull ex_cloud) = false /\
  pip (-360) (3, 2) (hull ex_cloud) = true /\
  pip (-360) (5, 1) (hull ex_cloud) = false.
Proof. exact nonvacuous_hull_pip. Qed.
