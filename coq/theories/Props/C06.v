(* C06 — TimeInterval behaves as the right-open set [start,end) or the instant {start}.
   This file holds only statements closed by [exact] and their Print Assumptions. *)
From Coq Require Import QArith.
From GV Require Import Prelude TimeM TimeP.
Open Scope Z_scope.

Theorem C06_contains_spec : forall i t, contains_dt i t = true <-> mem (q t) i.
Proof. exact contains_dt_mem. Qed.
Print Assumptions C06_contains_spec.

Theorem C06_issubset_spec : forall a b, wf a -> wf b ->
  (issubset a b = true <-> forall t, mem t a -> mem t b).
Proof. exact issubset_spec. Qed.
Print Assumptions C06_issubset_spec.

Theorem C06_issuperset_flip : forall a b, issuperset a b = issubset b a.
Proof. exact issuperset_flip. Qed.
Print Assumptions C06_issuperset_flip.

Theorem C06_isdisjoint_spec : forall a b, wf a -> wf b ->
  (isdisjoint a b = true <-> ~ exists t, mem t a /\ mem t b).
Proof. exact isdisjoint_spec. Qed.
Print Assumptions C06_isdisjoint_spec.

Theorem C06_isdisjoint_sym : forall a b, wf a -> wf b -> isdisjoint a b = isdisjoint b a.
Proof. exact isdisjoint_sym. Qed.
Print Assumptions C06_isdisjoint_sym.

Theorem C06_intersects_negb : forall a b, wf a -> wf b ->
  intersects a b = negb (isdisjoint a b).
Proof. exact intersects_negb. Qed.
Print Assumptions C06_intersects_negb.

Theorem C06_intersects_spec : forall a b, wf a -> wf b ->
  (intersects a b = true <-> exists t, mem t a /\ mem t b).
Proof. exact intersects_spec. Qed.
Print Assumptions C06_intersects_spec.

Theorem C06_intersects_dt_is_mem : forall a t, intersects_dt a t = true <-> mem (q t) a.
Proof. exact intersects_dt_is_mem. Qed.
Print Assumptions C06_intersects_dt_is_mem.

(* None exactly when the sets are disjoint; otherwise the set intersection; never raises *)
Theorem C06_intersection_spec : forall a b, wf a -> wf b ->
  match intersection a b with
  | Ok None => ~ exists t, mem t a /\ mem t b
  | Ok (Some c) => wf c /\ forall t, mem t c <-> (mem t a /\ mem t b)
  | Err _ => False
  end.
Proof. exact intersection_spec. Qed.
Print Assumptions C06_intersection_spec.

(* smallest covering span: start = min, end = max, below every interval covering both *)
Theorem C06_union_hull : forall a b c, wf a -> wf b -> union a b = Ok c ->
  wf c /\ st c = Z.min (st a) (st b) /\ en c = Z.max (en a) (en b) /\
  (forall d, wf d -> (forall t, mem t a -> mem t d) -> (forall t, mem t b -> mem t d) ->
             st d <= st c /\ en c <= en d).
Proof. exact union_hull. Qed.
Print Assumptions C06_union_hull.

Theorem C06_union_never_raises : forall a b, wf a -> wf b ->
  union a b = Ok (mkiv (Z.min (st a) (st b)) (Z.max (en a) (en b))).
Proof. exact union_ok. Qed.
Print Assumptions C06_union_never_raises.

(* The union covers its operands EXCEPT an instant operand sitting at the union's end.
   The full clause ("the union covers both operands") is false of the code: D8. *)
Theorem C06_union_covers_partial : forall a b c t, wf a -> wf b -> union a b = Ok c ->
  (mem t a /\ ~ (st a = en a /\ en a = en c /\ st c < en c)) \/
  (mem t b /\ ~ (st b = en b /\ en b = en c /\ st c < en c)) ->
  mem t c.
Proof. exact union_covers_partial. Qed.
Print Assumptions C06_union_covers_partial.

Theorem C06_union_covers_refuted :
  exists a b c t, wf a /\ wf b /\ union a b = Ok c /\ mem t b /\ ~ mem t c.
Proof. exact union_covers_refuted. Qed.
Print Assumptions C06_union_covers_refuted.

Theorem C06_mutual_subset_eq : forall a b, wf a -> wf b ->
  issubset a b = true -> issubset b a = true -> a = b.
Proof. exact mutual_subset_eq. Qed.
Print Assumptions C06_mutual_subset_eq.

Theorem C06_eq_hashkey : forall a b, iv_eqb a b = true -> hkey a = hkey b.
Proof. exact eq_hashkey. Qed.
Print Assumptions C06_eq_hashkey.

Theorem C06_eqb_eq : forall a b, iv_eqb a b = true <-> a = b.
Proof. exact iv_eqb_eq. Qed.
Print Assumptions C06_eqb_eq.

Theorem C06_mk_rejects : forall s e, e < s -> mk s e = Err ValueError.
Proof. exact mk_rejects. Qed.
Print Assumptions C06_mk_rejects.

Theorem C06_mk_accepts : forall s e, s <= e -> mk s e = Ok (mkiv s e) /\ wf (mkiv s e).
Proof. exact mk_accepts. Qed.
Print Assumptions C06_mk_accepts.

(* non-vacuity: the hypotheses are met by concrete overlapping, touching and instant values *)
Example C06_nonvacuous :
  wf (mkiv 0 10) /\ wf (mkiv 10 10) /\ wf (mkiv 10 20) /\
  isdisjoint (mkiv 0 10) (mkiv 10 10) = true /\
  intersection (mkiv 0 10) (mkiv 10 20) = Ok None /\
  intersection (mkiv 0 10) (mkiv 5 20) = Ok (Some (mkiv 5 10)) /\
  issubset (mkiv 10 10) (mkiv 0 10) = false.
Proof. unfold wf; cbn. repeat split; lia. Qed.
