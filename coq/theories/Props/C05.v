(* C05 — space-time predicates are the conjunction of the spatial and the temporal test.
   Only statements closed by [exact], with Print Assumptions. The spatial predicates are
   universally quantified (any member-level answers). *)
From Coq Require Import QArith.
From GV Require Import Prelude TimeM TimeP ShapeM ShapeP.
Open Scope Z_scope.

Theorem C05_intersects_compose : forall (is_ : shp -> shp -> bool) a b,
  ShapeM.intersects is_ a b =
  is_ a b && match sdt a, sdt b with Some x, Some y => TimeM.intersects x y | _, _ => true end.
Proof. exact intersects_compose. Qed.
Print Assumptions C05_intersects_compose.

Theorem C05_contains_compose : forall (cs : shp -> shp -> bool) a b,
  contains cs a b =
  cs a b && match sdt a, sdt b with Some x, Some y => issuperset x y | _, _ => true end.
Proof. exact contains_compose. Qed.
Print Assumptions C05_contains_compose.

(* with C06: the temporal factor is "the two time sets share an instant" *)
Theorem C05_intersects_sem : forall (is_ : shp -> shp -> bool) a b, wf_shp a -> wf_shp b ->
  (ShapeM.intersects is_ a b = true <->
   is_ a b = true /\
   (forall x y, sdt a = Some x -> sdt b = Some y -> exists t, mem t x /\ mem t y)).
Proof. exact intersects_sem. Qed.
Print Assumptions C05_intersects_sem.

(* ... respectively "the argument's time set is included in the receiver's" *)
Theorem C05_contains_sem : forall (cs : shp -> shp -> bool) a b, wf_shp a -> wf_shp b ->
  (contains cs a b = true <->
   cs a b = true /\
   (forall x y, sdt a = Some x -> sdt b = Some y -> forall t, mem t y -> mem t x)).
Proof. exact contains_sem. Qed.
Print Assumptions C05_contains_sem.

Theorem C05_no_dt_is_spatial_only : forall (cs is_ : shp -> shp -> bool) a b,
  sdt a = None \/ sdt b = None ->
  ShapeM.intersects is_ a b = is_ a b /\ contains cs a b = cs a b.
Proof. exact no_dt_is_spatial_only. Qed.
Print Assumptions C05_no_dt_is_spatial_only.

Theorem C05_coordinate_shortcut : forall (cc : shp -> Z -> bool) a c, contains_coord cc a c = cc a c.
Proof. exact coordinate_shortcut. Qed.
Print Assumptions C05_coordinate_shortcut.

Theorem C05_instant_is_zero_interval : forall t,
  norm_dt (Instant t) = norm_dt (Interval t t) /\ norm_dt (Instant t) = Ok (Some (mkiv t t)).
Proof. exact instant_is_zero_interval. Qed.
Print Assumptions C05_instant_is_zero_interval.

Theorem C05_norm_dt_wf : forall d i, norm_dt d = Ok (Some i) -> wf i.
Proof. exact norm_dt_wf. Qed.
Print Assumptions C05_norm_dt_wf.

Theorem C05_norm_dt_rejects : forall s e, e < s -> norm_dt (Interval s e) = Err ValueError.
Proof. exact norm_dt_rejects. Qed.
Print Assumptions C05_norm_dt_rejects.

Example C05_nonvacuous :
  let a := mkshp (Some (mkiv 0 10)) 1 in let b := mkshp (Some (mkiv 10 20)) 2 in
  wf_shp a /\ wf_shp b /\
  ShapeM.intersects (fun _ _ => true) a b = false /\          (* touching intervals: time gate closes *)
  ShapeM.intersects (fun _ _ => true) a (mkshp None 3) = true /\
  contains (fun _ _ => true) a (mkshp (Some (mkiv 2 2)) 4) = true /\
  contains (fun _ _ => true) a (mkshp (Some (mkiv 10 10)) 5) = false.
Proof. cbv. repeat split; discriminate. Qed.
