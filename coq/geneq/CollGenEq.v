(* Translator tie for C18: the collection filters regenerated from collections.py equal the model
   (FilterM.v) for ALL collections, arguments and member-level predicates. *)
From GV Require Import Prelude CollM FilterM.
From GV Require TimeM.
From GVgen Require Import CollGen.
Open Scope Z_scope.

Section Eq.
  Variable query : Type.
  Variables xi xc qc : query -> shape -> bool.
  Variable pt : Z -> shape -> option bool.

  Lemma filter_ext' {A} (f g : A -> bool) l : (forall x, f x = g x) -> filter f l = filter g l.
  Proof. intros H. induction l as [|x l IH]; cbn; [reflexivity|]. rewrite H, IH. reflexivity. Qed.

  Lemma geq_filter_by_dt_instant : forall c d, g_filter_by_dt_instant c d = filter_by_dt_instant c d.
  Proof.
    intros. unfold g_filter_by_dt_instant, filter_by_dt_instant, filter_with. f_equal.
    apply filter_ext'. intros x. unfold sdt_iv, p_dt_instant.
    destruct (sdt x) as [[s e]|]; reflexivity.
  Qed.

  Lemma geq_filter_by_dt_interval : forall c a b,
    g_filter_by_dt_interval c (TimeM.mkiv a b) = filter_by_dt_interval c a b.
  Proof.
    intros. unfold g_filter_by_dt_interval, filter_by_dt_interval, filter_with. f_equal.
    apply filter_ext'. intros x. unfold sdt_iv, p_dt_interval.
    destruct (sdt x) as [[s e]|]; reflexivity.
  Qed.

  Lemma geq_filter_by_dt_other : forall c u, g_filter_by_dt_other c u = filter_by_dt_other c.
  Proof. reflexivity. Qed.

  Lemma geq_filter_by_intersection : forall c q,
    g_filter_by_intersection query xi c q = filter_by_intersection query xi c q.
  Proof. reflexivity. Qed.

  Lemma geq_filter_contained_by : forall c q,
    g_filter_contained_by query qc c q = filter_contained_by query qc c q.
  Proof. reflexivity. Qed.

  Lemma geq_filter_contains : forall c q,
    g_filter_contains query xc c q = filter_contains query xc c q.
  Proof. reflexivity. Qed.

  (* the accumulate-and-raise loop: the generated right fold equals the model's accumulator loop *)
  Lemma prop_loop_collect key l : forall acc,
    prop_loop pt key l acc =
    match loop_collect (fun x => if negb (pview_has pt (pview x) key) then None
                                 else Some (pval_truth (pview_get pt (pview x) key))) l with
    | None => Err KeyError
    | Some r => Ok (rev acc ++ r)
    end.
  Proof.
    induction l as [|x l IH]; intros acc; cbn [prop_loop loop_collect].
    - rewrite app_nil_r. reflexivity.
    - unfold pview_has, pview_get, pview, pval_truth at 1. destruct (pt key x) as [b|]; cbn [negb]; [|reflexivity].
      rewrite IH. destruct (loop_collect _ l) as [r|]; [|reflexivity].
      destruct b; cbn [rev]; [rewrite <- app_assoc|]; reflexivity.
  Qed.

  Lemma geq_filter_by_property : forall c key u,
    g_filter_by_property pt c key u = filter_by_property pt c key.
  Proof.
    intros. unfold g_filter_by_property, filter_by_property. rewrite prop_loop_collect.
    destruct (loop_collect _ (members c)); reflexivity.
  Qed.
End Eq.
