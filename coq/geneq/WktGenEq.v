(* Translator tie for C13: the regular expressions and the parser table read from /repo on this
   run are the ones the model (WktM.v) uses.  Both sides are flattened (nested sequences,
   singleton sequences) before comparison; the matcher treats a nested sequence like its
   elements in place. *)
From Coq Require Import String Ascii.
From GV Require Import Prelude RingM WktM.
From GVgen Require Import WktGen.

Fixpoint norm (r : re) : re :=
  match r with
  | RSeq l =>
      let l' := flat_map (fun x => match norm x with RSeq m => m | y => [y] end) l in
      match l' with [x] => x | _ => RSeq l' end
  | RAlt l => RAlt (map norm l)
  | RRep lo hi r1 => RRep lo hi (norm r1)
  | RGroup r1 => RGroup (norm r1)
  | x => x
  end.

Definition cls_eqb (a b : cls) : bool :=
  match a, b with
  | CChar x, CChar y => Ascii.eqb x y
  | CDigit, CDigit | CSpace, CSpace => true
  | CRange a1 a2, CRange b1 b2 => Ascii.eqb a1 b1 && Ascii.eqb a2 b2
  | _, _ => false
  end.

Fixpoint re_eqb (a b : re) : bool :=
  match a, b with
  | RSet n l, RSet n' l' => Bool.eqb n n' && list_eqb cls_eqb l l'
  | RSeq l, RSeq l' | RAlt l, RAlt l' =>
      (fix go (x y : list re) : bool :=
         match x, y with
         | [], [] => true
         | p :: x', q :: y' => re_eqb p q && go x' y'
         | _, _ => false
         end) l l'
  | RRep lo hi r, RRep lo' hi' r' => Nat.eqb lo lo' && option_eqb Nat.eqb hi hi' && re_eqb r r'
  | RGroup r, RGroup r' => re_eqb r r'
  | RBol, RBol | REol, REol => true
  | _, _ => false
  end.

Definition same (g m : re) : bool := re_eqb (norm g) (norm m).

Lemma gen_coord_eq : same g_coord re_coord = true /\ g_coord_ic = false. Proof. vm_compute. split; reflexivity. Qed.
Lemma gen_ring_eq : same g_ring re_ring = true /\ g_ring_ic = false. Proof. vm_compute. split; reflexivity. Qed.
Lemma gen_rings_eq : same g_rings re_rings = true /\ g_rings_ic = false. Proof. vm_compute. split; reflexivity. Qed.
Lemma gen_zm_eq : same g_zm re_zm = true /\ g_zm_ic = false. Proof. vm_compute. split; reflexivity. Qed.
Lemma gen_point_gate_eq : same g_point (gate_re TPoint) = true /\ g_point_ic = true. Proof. vm_compute. split; reflexivity. Qed.
Lemma gen_polygon_gate_eq : same g_polygon (gate_re TPoly) = true /\ g_polygon_ic = true. Proof. vm_compute. split; reflexivity. Qed.
Lemma gen_linestring_gate_eq : same g_linestring (gate_re TLine) = true /\ g_linestring_ic = true. Proof. vm_compute. split; reflexivity. Qed.
Lemma gen_multipoint_gate_eq : same g_multipoint (gate_re TMPoint) = true /\ g_multipoint_ic = true. Proof. vm_compute. split; reflexivity. Qed.
Lemma gen_multipoint_nested_gate_eq : same g_multipoint_nested re_mpoint_nested = true /\ g_multipoint_nested_ic = true. Proof. vm_compute. split; reflexivity. Qed.
Lemma gen_multipolygon_gate_eq : same g_multipolygon (gate_re TMPoly) = true /\ g_multipolygon_ic = true. Proof. vm_compute. split; reflexivity. Qed.
Lemma gen_multilinestring_gate_eq : same g_multilinestring (gate_re TMLine) = true /\ g_multilinestring_ic = true. Proof. vm_compute. split; reflexivity. Qed.
Lemma gen_word_eq : same g_word re_word = true. Proof. vm_compute. reflexivity. Qed.

(* the keyword table: exactly the six keywords, each bound to the class the model dispatches to *)
Definition class_of (t : wtag) : string :=
  match t with
  | TPoint => "GeoPoint" | TLine => "GeoLineString" | TPoly => "GeoPolygon"
  | TMPoint => "MultiGeoPoint" | TMLine => "MultiGeoLineString" | TMPoly => "MultiGeoPolygon"
  end.

Lemma gen_parser_map_eq :
  length g_parser_map = 6%nat /\
  forallb (fun kv => match tag_of_word (list_ascii_of_string (fst kv)) with
                     | Some t => String.eqb (class_of t) (snd kv)
                     | None => false
                     end) g_parser_map = true /\
  NoDup (map fst g_parser_map).
Proof.
  vm_compute. repeat split.
  repeat (constructor; [cbn; intuition discriminate|]). constructor.
Qed.
