(* The translator tie for the codec FUNCTIONS of C11: the definitions regenerated from geostructures/geohash.py by
   tools/gen_geohash.py (main_codec) equal the model functions of GeohashM.v, for ALL arguments.  Compiled on every run
   against the fresh GeohashGen.v (and after GeohashCfgGen.v / GeohashCfgGenEq.v, the tie of the tables).

   _decode_niemeyer: the generated code is a loop over the characters (py_for_res) around a loop over the masks (fold_left),
   each with its body as a separate definition over the tuple (lat_interval, lon_interval, lon_error, lat_error,
   lon_component); the model is [dec_loop] around [dec_char]/[dec_bit] over the record [ds].  [to_ds]/[of_ds] is the (bijective)
   change of representation; bodies are proved equal, then the loops by list induction.

   _coord_to_niemeyer: the generated code is ONE while loop that advances one bit per iteration over the tuple
   (geohash, lat_interval, lon_interval, character, bit, lon_component, geohash_position); the model recurses on the number of
   characters ([enc_loop]) and, inside, on the masks ([enc_char]).  The structures differ, so the equivalence is by induction:
   [geq_coord_step_mid]/[geq_coord_step_last] (one iteration = one step of enc_char, with the index bit = |masks already used|
   in range), [geq_coord_char] (|masks| iterations = one enc_char and one appended character), [geq_coord_loop]
   (n characters), and [geq_coord_to_niemeyer]: every fuel > length * 6 suffices and gives the model's value. *)
From Coq Require Import QArith Qreduction FinFun.
From GV Require Import Prelude GeohashM.
From GVgen Require GeohashCfgGen GeohashCfgGenEq.
From GVgen Require Import GeohashGen.
Open Scope Z_scope.

(* ---- primitives of the generated header ---------------------------------------------------------------------------- *)
Lemma geq_config_get : forall b, py_config_get b = GeohashM.cfg_of_base b.
Proof. exact GeohashCfgGenEq.geq_cfg_of_base. Qed.

Lemma geq_dict_get : forall d k, py_dict_get d k = lookup k d.
Proof. induction d as [|[k' v] d IH]; intro k; cbn; [reflexivity|]. rewrite IH. reflexivity. Qed.

Lemma geq_char_in : forall ch s, py_char_in ch s = in_charset ch s.
Proof. reflexivity. Qed.

Lemma geq_fmid : forall a b, py_fdiv (a + b)%Q 2%Q = qmid a b.
Proof. reflexivity. Qed.

Lemma geq_fhalf : forall e, py_fdiv e 2%Q = qhalf e.
Proof. reflexivity. Qed.

Lemma geq_fgt : forall a b, py_fgt a b = qgt a b.
Proof. reflexivity. Qed.

(* what is used of the three tables (the generated tables equal the model's: GeohashCfgGenEq) *)
Lemma cfg_of_base_facts : forall b c, GeohashM.cfg_of_base b = Some c ->
  bits c <> [] /\ (length (bits c) <= 6)%nat /\ nodupb (charset c) = true.
Proof.
  intros b c. unfold GeohashM.cfg_of_base.
  destruct (b =? 16); [|destruct (b =? 32); [|destruct (b =? 64); [|discriminate]]];
    intro H; injection H as <-; (split; [discriminate|split; [cbn; lia|vm_compute; reflexivity]]).
Qed.

(* ---- _decode_niemeyer ------------------------------------------------------------------------------------------------ *)
Definition dst := ((Q * Q) * (Q * Q) * Q * Q * bool)%type.
Definition to_ds (st : dst) : ds :=
  let '(lat_interval, lon_interval, lon_error, lat_error, lon_component) := st in
  mkds (mkcs lon_interval lat_interval lon_component) lon_error lat_error.
Definition of_ds (d : ds) : dst := (latI (dcs d), lonI (dcs d), lonE d, latE d, lonc (dcs d)).

Lemma of_to_ds : forall st, of_ds (to_ds st) = st.
Proof. intros [[[[a b] x] y] l]. reflexivity. Qed.
Lemma to_of_ds : forall d, to_ds (of_ds d) = d.
Proof. intros [[a b l] x y]. reflexivity. Qed.

(* the body of `for mask in config['bits']` is the model's dec_bit *)
Lemma geq_decode_for_mask : forall v st m,
  g_decode_niemeyer_for_mask v st m = of_ds (dec_bit (mask_set v m) (to_ds st)).
Proof.
  intros v [[[[la lo] le] lae] lc] m.
  unfold g_decode_niemeyer_for_mask, dec_bit, narrow_cs, narrow, mask_set, to_ds, of_ds, qhalf, qmid, py_fdiv.
  cbn [dcs lonc lonI latI lonE latE].
  destruct lc; destruct (negb (Z.land v m =? 0)); reflexivity.
Qed.

Lemma geq_decode_bits_gen : forall v l st,
  fold_left (g_decode_niemeyer_for_mask v) l st = of_ds (fold_left (fun d m => dec_bit (mask_set v m) d) l (to_ds st)).
Proof.
  intros v l. induction l as [|m l IH]; intro st; cbn [fold_left].
  - symmetry. apply of_to_ds.
  - rewrite geq_decode_for_mask, IH, to_of_ds. reflexivity.
Qed.

(* the inner loop is the model's dec_char *)
Lemma geq_decode_bits : forall c v st,
  fold_left (g_decode_niemeyer_for_mask v) (bits c) st = of_ds (dec_char c v (to_ds st)).
Proof. intros. apply geq_decode_bits_gen. Qed.

(* one iteration of [dec_loop] *)
Definition dec_step (c : cfg) (d : ds) (ch : Z) : res ds :=
  if negb (in_charset ch (charset c)) then Err ValueError
  else match lookup ch (inverse c) with
       | None => Err KeyError
       | Some v => Ok (dec_char c v d)
       end.
Definition res_of_ds (r : res ds) : res dst := match r with Ok d => Ok (of_ds d) | Err e => Err e end.

Lemma dec_loop_unfold : forall c ch s d,
  dec_loop c (ch :: s) d = match dec_step c d ch with Ok d' => dec_loop c s d' | Err e => Err e end.
Proof.
  intros. unfold dec_step. cbn [dec_loop]. destruct (negb (in_charset ch (charset c))); [reflexivity|].
  destruct (lookup ch (inverse c)); reflexivity.
Qed.

(* the body of `for character in geohash` is the model's per-character step: alphabet check (ValueError), inverse map
   (KeyError), then the masks *)
Lemma geq_decode_for_character : forall c st ch,
  g_decode_niemeyer_for_character c st ch = res_of_ds (dec_step c (to_ds st) ch).
Proof.
  intros c st ch. unfold g_decode_niemeyer_for_character, dec_step.
  rewrite geq_dict_get, geq_char_in.
  destruct st as [[[[la lo] le] lae] lc].
  destruct (negb (in_charset ch (charset c))); [reflexivity|].
  destruct (lookup ch (inverse c)) as [v|]; [|reflexivity].
  rewrite geq_decode_bits. reflexivity.
Qed.

Lemma geq_decode_loop : forall c s st,
  py_for_res (g_decode_niemeyer_for_character c) s st = res_of_ds (dec_loop c s (to_ds st)).
Proof.
  intros c s. induction s as [|ch s IH]; intro st.
  - cbn. rewrite of_to_ds. reflexivity.
  - cbn [py_for_res]. rewrite dec_loop_unfold, geq_decode_for_character.
    destruct (dec_step c (to_ds st) ch) as [d|e]; cbn [res_of_ds]; [|reflexivity].
    rewrite IH, to_of_ds. reflexivity.
Qed.

Lemma geq_decode_niemeyer : forall s base, g_decode_niemeyer s base = decode_niemeyer base s.
Proof.
  intros s base. unfold g_decode_niemeyer, decode_niemeyer. rewrite geq_config_get.
  destruct (GeohashM.cfg_of_base base) as [c|]; [|reflexivity].
  cbv zeta. rewrite geq_decode_loop. unfold decode.
  change (to_ds (miny c, maxy c, (minx c, maxx c), maxx c, maxy c, true)) with (init_ds c).
  destruct (dec_loop c s (init_ds c)) as [[[lo la lc] le lae]|e]; reflexivity.
Qed.

(* ---- _coord_to_niemeyer ----------------------------------------------------------------------------------------------- *)
Definition est := (list Z * (Q * Q) * (Q * Q) * Z * Z * bool * Z)%type.
Definition gh_of (st : est) : list Z := let '(gh, _, _, _, _, _, _) := st in gh.
(* the loop state: (geohash, lat_interval, lon_interval, character, bit, lon_component, geohash_position) *)
Definition mk (gh : list Z) (s : cs) (ch bit pos : Z) : est := (gh, latI s, lonI s, ch, bit, lonc s, pos).

Lemma py_while_more {S} (cond : S -> bool) (step : S -> S) : forall s, cond s = true ->
  forall fuel, py_while cond step (Datatypes.S fuel) s = py_while cond step fuel (step s).
Proof. intros s H fuel. cbn. rewrite H. reflexivity. Qed.

(* the while condition: geohash_position < length *)
Lemma geq_coord_cond : forall len gh s ch bit pos, g_coord_to_niemeyer_cond len (mk gh s ch bit pos) = (pos <? len).
Proof. reflexivity. Qed.

Section Enc.
  Variable c : cfg.
  Variables lon lat : Q.
  Variable len : Z.
  Notation cond := (g_coord_to_niemeyer_cond len).
  Notation step := (g_coord_to_niemeyer_step c lon lat).
  Notation p := (lon, lat).

  Lemma index_middle : forall pre m ms, bits c = pre ++ m :: ms -> py_index (bits c) (Z.of_nat (length pre)) = m.
  Proof. intros pre m ms H. unfold py_index. rewrite Nat2Z.id, H. apply nth_middle. Qed.

  (* the part of the body before the `if bit < len(bits) - 1`: the model's bit_of / narrow_cs / OR of the mask *)
  Lemma geq_coord_step : forall gh s ch bit pos,
    step (mk gh s ch bit pos) =
    let b := bit_of p s in
    let s' := narrow_cs b s in
    let ch' := if b then Z.lor ch (py_index (bits c) bit) else ch in
    if bit <? py_len (bits c) - 1 then mk gh s' ch' (bit + 1) pos
    else mk (gh ++ [py_index (charset c) ch']) s' 0 0 (pos + 1).
  Proof.
    intros gh [lo la lc] ch bit pos.
    unfold g_coord_to_niemeyer_step, mk, bit_of, narrow_cs, narrow, qgt, qmid, py_fgt, py_fdiv.
    cbn [lonI latI lonc fst snd].
    destruct lc; cbv beta iota zeta.
    - destruct (negb (Qle_bool lon (Qred ((fst lo + snd lo) / 2)))); cbv beta iota zeta;
        destruct (bit <? py_len (bits c) - 1); reflexivity.
    - destruct (negb (Qle_bool lat (Qred ((fst la + snd la) / 2)))); cbv beta iota zeta;
        destruct (bit <? py_len (bits c) - 1); reflexivity.
  Qed.

  (* one iteration on a mask that is not the last of its character: bit = |pre| indexes that mask *)
  Lemma geq_coord_step_mid : forall pre m ms gh s ch pos, bits c = pre ++ m :: ms -> ms <> [] ->
    step (mk gh s ch (Z.of_nat (length pre)) pos) =
    mk gh (narrow_cs (bit_of p s) s) (if bit_of p s then Z.lor ch m else ch) (Z.of_nat (S (length pre))) pos.
  Proof.
    intros pre m ms gh s ch pos H Hms. rewrite geq_coord_step. cbv zeta. rewrite (index_middle _ _ _ H).
    assert (Hlt : (Z.of_nat (length pre) <? py_len (bits c) - 1) = true).
    { unfold py_len. rewrite H, app_length. cbn [length]. destruct ms; [congruence|]. cbn [length]. lia. }
    rewrite Hlt, Nat2Z.inj_succ. reflexivity.
  Qed.

  (* one iteration on the last mask: the character is appended, character/bit are reset, the position advances *)
  Lemma geq_coord_step_last : forall pre m gh s ch pos, bits c = pre ++ [m] ->
    step (mk gh s ch (Z.of_nat (length pre)) pos) =
    mk (gh ++ [char_at c (if bit_of p s then Z.lor ch m else ch)]) (narrow_cs (bit_of p s) s) 0 0 (pos + 1).
  Proof.
    intros pre m gh s ch pos H. rewrite geq_coord_step. cbv zeta. rewrite (index_middle _ _ _ H).
    assert (Hlt : (Z.of_nat (length pre) <? py_len (bits c) - 1) = false).
    { unfold py_len. rewrite H, app_length. cbn [length]. lia. }
    rewrite Hlt. reflexivity.
  Qed.

  (* |ms| iterations, started with the masks [pre] already used, do what enc_char does on [ms], then append *)
  Lemma geq_coord_char : forall ms pre gh s ch pos fuel, bits c = pre ++ ms -> ms <> [] -> (pos <? len) = true ->
    py_while cond step (length ms + fuel) (mk gh s ch (Z.of_nat (length pre)) pos) =
    py_while cond step fuel (mk (gh ++ [char_at c (fst (enc_char ms p s ch))]) (snd (enc_char ms p s ch)) 0 0 (pos + 1)).
  Proof.
    induction ms as [|m ms IH]; intros pre gh s ch pos fuel H Hne Hpos; [congruence|].
    cbn [length Nat.add]. rewrite py_while_more by (rewrite geq_coord_cond; exact Hpos).
    destruct ms as [|m' ms'].
    - rewrite (geq_coord_step_last _ _ _ _ _ _ H). reflexivity.
    - rewrite (geq_coord_step_mid _ _ _ _ _ _ _ H) by discriminate.
      replace (S (length pre)) with (length (pre ++ [m])) by (rewrite app_length; cbn; lia).
      rewrite IH; [reflexivity| rewrite <- app_assoc; exact H | discriminate | exact Hpos].
  Qed.

  (* n characters *)
  Lemma geq_coord_loop : bits c <> [] -> forall n gh s pos fuel, n = Z.to_nat (len - pos) ->
    option_map gh_of (py_while cond step (n * length (bits c) + S fuel) (mk gh s 0 0 pos)) = Some (gh ++ enc_loop c n p s).
  Proof.
    intros Hb n. induction n as [|n IH]; intros gh s pos fuel Hn.
    - cbn [Nat.mul Nat.add py_while]. rewrite geq_coord_cond.
      replace (pos <? len) with false by lia. cbn. rewrite app_nil_r. reflexivity.
    - replace (S n * length (bits c) + S fuel)%nat with (length (bits c) + (n * length (bits c) + S fuel))%nat by lia.
      rewrite (geq_coord_char (bits c) [] gh s 0 pos); [|reflexivity|exact Hb|lia].
      rewrite IH by lia. cbn [enc_loop].
      destruct (enc_char (bits c) p s 0) as [v s']. cbn [fst snd]. rewrite <- app_assoc. reflexivity.
  Qed.
End Enc.

Lemma geq_coord_to_niemeyer : forall fuel pt len base, (Z.to_nat len * 6 < fuel)%nat ->
  g_coord_to_niemeyer fuel pt len base = Some (coord_to_niemeyer base pt len).
Proof.
  intros fuel [lon lat] len base Hf. unfold g_coord_to_niemeyer, coord_to_niemeyer, py_config_has.
  rewrite geq_config_get.
  destruct (GeohashM.cfg_of_base base) as [c|] eqn:E; [|reflexivity]. cbn [negb]. cbv zeta.
  destruct (cfg_of_base_facts _ _ E) as (Hb & Hl & _).
  pose proof (geq_coord_loop c lon lat len Hb (Z.to_nat len) [] (init_cs c) 0
                (fuel - Z.to_nat len * length (bits c) - 1) ltac:(f_equal; lia)) as H.
  replace (Z.to_nat len * length (bits c) + S (fuel - Z.to_nat len * length (bits c) - 1))%nat with fuel in H by nia.
  unfold mk, init_cs in H. cbn [lonI latI lonc] in H. cbn [app] in H. unfold encode.
  destruct (py_while (g_coord_to_niemeyer_cond len) (g_coord_to_niemeyer_step c lon lat) fuel
              ([], (miny c, maxy c), (minx c, maxx c), 0, 0, true, 0)) as [[[[[[[gh a] b] ch] bt] lc] pos]|];
    cbn in H; [|discriminate]. injection H as ->. reflexivity.
Qed.

(* ---- _get_niemeyer_subhashes ------------------------------------------------------------------------------------------ *)
Lemma str_eqb_eq : forall a b, py_str_eqb a b = true -> a = b.
Proof.
  unfold py_str_eqb. induction a as [|x a IH]; intros [|y b] H; cbn in H; try discriminate; [reflexivity|].
  apply andb_prop in H as [H1 H2]. apply Z.eqb_eq in H1. subst. f_equal. apply IH, H2.
Qed.

(* building a set from duplicate-free elements keeps them all, in order *)
Lemma set_of_list_nodup : forall l acc, NoDup (acc ++ l) -> py_set_of_list l acc = acc ++ l.
Proof.
  induction l as [|x l IH]; intros acc H; cbn [py_set_of_list]; [symmetry; apply app_nil_r|].
  assert (Hx : existsb (py_str_eqb x) acc = false).
  { destruct (existsb (py_str_eqb x) acc) eqn:E; [|reflexivity]. exfalso.
    apply existsb_exists in E as (y & Hy & Exy). apply str_eqb_eq in Exy. subst y.
    apply NoDup_remove_2 in H. apply H, in_or_app. left. exact Hy. }
  rewrite Hx, IH; rewrite <- app_assoc; [reflexivity|exact H].
Qed.

Lemma nodupb_NoDup : forall l, nodupb l = true -> NoDup l.
Proof.
  induction l as [|x l IH]; intro H; [constructor|]. cbn in H. apply andb_prop in H as [H1 H2].
  constructor; [|apply IH, H2]. intro Hin. apply negb_true_iff in H1.
  assert (existsb (Z.eqb x) l = true) by (apply existsb_exists; exists x; split; [exact Hin|apply Z.eqb_refl]).
  congruence.
Qed.

Lemma geq_get_niemeyer_subhashes : forall s base, g_get_niemeyer_subhashes s base = get_subhashes base s.
Proof.
  intros s base. unfold g_get_niemeyer_subhashes, get_subhashes, py_config_has. rewrite geq_config_get.
  destruct (GeohashM.cfg_of_base base) as [c|] eqn:E; [|reflexivity]. cbn [negb].
  destruct (cfg_of_base_facts _ _ E) as (_ & _ & Hn). unfold subhashes.
  rewrite set_of_list_nodup; [reflexivity|]. cbn [app].
  apply Injective_map_NoDup; [|apply nodupb_NoDup, Hn].
  intros a b Hab. apply app_inv_head in Hab. congruence.
Qed.

(* ---- niemeyer_to_geobox: for EVERY Coordinate constructor the corners are (lon - err, lat + err), (lon + err, lat - err) of the
   decoded cell; with the model's constructor (180 -> -180 included: D12a) that is the model's box ------------------------ *)
Lemma geq_niemeyer_to_geobox_any : forall (mkc : Q -> Q -> Q * Q) s base,
  g_niemeyer_to_geobox mkc s base =
  match decode_niemeyer base s with
  | Ok (x, y, ex, ey) => Ok (mkc (x - ex)%Q (y + ey)%Q, mkc (x + ex)%Q (y - ey)%Q)
  | Err e => Err e
  end.
Proof.
  intros mkc s base. unfold g_niemeyer_to_geobox. rewrite geq_decode_niemeyer.
  destruct (decode_niemeyer base s) as [[[[x y] ex] ey]|e]; reflexivity.
Qed.

Lemma geq_niemeyer_to_geobox : forall s base, g_niemeyer_to_geobox coordinate s base = niemeyer_to_geobox base s.
Proof.
  intros s base. rewrite geq_niemeyer_to_geobox_any.
  unfold decode_niemeyer, niemeyer_to_geobox, cell_box. destruct (GeohashM.cfg_of_base base) as [c|]; [|reflexivity].
  destruct (decode c s) as [[[[x y] ex] ey]|e]; reflexivity.
Qed.

(* ---- NiemeyerHasher.__init__ stores its two arguments in the fields the class reads back (self.length, self.base: the record
   [hasher] that tools/gen_flood.py's translation of the class is stated over) -------------------------------------------- *)
Lemma geq_hasher_init : forall l b, h_length (g_hasher_init l b) = l /\ h_base (g_hasher_init l b) = b.
Proof. intros. split; reflexivity. Qed.
