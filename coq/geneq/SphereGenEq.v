(* The translator tie for calc.py / _geometry.py: every definition regenerated from the working
   tree equals the hand model of SphereM.v, for ALL arguments (conversion only: the generated
   terms differ from the model by let-bindings and names).  Compiled on every run against the
   fresh SphereGen.v. *)
From GV Require Import Prelude SphereM SphereP3.
From Coq Require Import Reals.
From GVgen Require Import SphereGen.
Open Scope R_scope.

Lemma geq_EARTH_RADIUS : g_EARTH_RADIUS = Rearth.
Proof. reflexivity. Qed.

Lemma geq_ensure_edge_bounds : forall c1 c2, g_ensure_edge_bounds c1 c2 = ensure_edge_bounds c1 c2.
Proof. intros. reflexivity. Qed.

Lemma geq_haversine_distance_meters : forall c1 c2, g_haversine_distance_meters c1 c2 = hdist c1 c2.
Proof. intros. reflexivity. Qed.

Lemma geq_bearing_degrees : forall c1 c2, g_bearing_degrees c1 c2 = bearing c1 c2.
Proof. intros. reflexivity. Qed.

(* repair D53: the code clamps the argument of asin to [-1, 1] against float rounding; over the reals the argument IS in
   [-1, 1] (SphereP3.s2_range), so the clamp is the identity and the generated term equals the unclamped model *)
Lemma clamp_id x : -1 <= x <= 1 -> Rmax (- 1) (Rmin 1 x) = x.
Proof. intros [A B]. rewrite (Rmin_right 1 x B). apply Rmax_right. exact A. Qed.

Lemma geq_inverse_haversine_radians : forall s a d,
  g_inverse_haversine_radians s a d = dest_rad_rounded s a d.
Proof.
  intros. unfold g_inverse_haversine_radians.
  cbv zeta.
  pose proof (s2_range (lat s * PI / 180) (d / g_EARTH_RADIUS) a) as Hs. unfold s2_of in Hs.
  rewrite (clamp_id _ Hs). reflexivity.
Qed.

Lemma geq_inverse_haversine_degrees : forall s a d,
  g_inverse_haversine_degrees s a d = dest_deg_rounded s a d.
Proof. intros. unfold g_inverse_haversine_degrees. rewrite geq_inverse_haversine_radians. reflexivity. Qed.
