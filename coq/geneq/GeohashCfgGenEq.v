(* The tie for the _NIEMEYER_CONFIG tables: the tables regenerated from the working tree equal
   the model's tables (which the theorems' instances are about), the set of supported bases is
   the same, and each regenerated table satisfies the consistency predicate [cfg_ok] under which
   every theorem of Props/C11.v is proved (finite check, decided by the kernel's VM).
   Compiled on every run against the fresh GeohashCfgGen.v. *)
From Coq Require Import QArith.
From GV Require Import Prelude GeohashM.
From GVgen Require GeohashCfgGen.
Open Scope Z_scope.

Lemma geq_cfg16 : GeohashCfgGen.cfg16 = GeohashM.cfg16. Proof. vm_compute. reflexivity. Qed.
Lemma geq_cfg32 : GeohashCfgGen.cfg32 = GeohashM.cfg32. Proof. vm_compute. reflexivity. Qed.
Lemma geq_cfg64 : GeohashCfgGen.cfg64 = GeohashM.cfg64. Proof. vm_compute. reflexivity. Qed.

Lemma geq_cfg_of_base : forall b, GeohashCfgGen.cfg_of_base b = GeohashM.cfg_of_base b.
Proof.
  intro b. unfold GeohashCfgGen.cfg_of_base, GeohashM.cfg_of_base.
  rewrite geq_cfg16, geq_cfg32, geq_cfg64. reflexivity.
Qed.

Lemma gen_cfg16_ok : cfg_ok GeohashCfgGen.cfg16. Proof. vm_compute. reflexivity. Qed.
Lemma gen_cfg32_ok : cfg_ok GeohashCfgGen.cfg32. Proof. vm_compute. reflexivity. Qed.
Lemma gen_cfg64_ok : cfg_ok GeohashCfgGen.cfg64. Proof. vm_compute. reflexivity. Qed.
