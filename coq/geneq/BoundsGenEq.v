(* Translator tie for C09: the `bounds` properties, the circumscribing rectangles and the
   centroid + farthest-vertex circles regenerated from structures.py / _base.py / collections.py /
   multistructures.py equal the model (BoundsM.v, ShapeM.multi_bounds) for ALL vertex lists, member
   bounds and every distance function. *)
From GV Require Import Prelude ShapeM BoundsM.
From GVgen Require Import BoundsGen.
Open Scope Z_scope.

Lemma map_same {A} (l : list A) : map (fun y => y) l = l.
Proof. induction l as [|x l IH]; cbn; [|rewrite IH]; reflexivity. Qed.

Lemma flat_map_map_concat {A B} (f : A -> B) (ls : list (list A)) :
  flat_map (fun l => map f l) ls = map f (concat ls).
Proof. induction ls as [|l ls IH]; cbn; [|rewrite IH, map_app]; reflexivity. Qed.

(* ---- bounds of the vertex-defined shapes *)
Lemma geq_polygon_bounds : forall vs, g_polygon_bounds vs = bounds_of vs.
Proof.
  intros. unfold g_polygon_bounds, bounds_of, to_float, p_outline. rewrite map_same.
  destruct vs as [|v vs]; reflexivity.
Qed.

Lemma geq_linestring_bounds : forall vs, g_linestring_bounds vs = bounds_of vs.
Proof.
  intros. unfold g_linestring_bounds, bounds_of, to_float, l_vertices. rewrite map_same.
  destruct vs as [|v vs]; reflexivity.
Qed.

(* GeoRing.bounds for an angle range < 360 (the full-ring branch is the real-valued formula of C09b) *)
Lemma geq_wedge_bounds : forall vs, g_wedge_bounds vs = bounds_of vs.
Proof.
  intros. unfold g_wedge_bounds, bounds_of, to_float, w_bounding_coords. rewrite map_same.
  destruct vs as [|v vs]; reflexivity.
Qed.

Lemma geq_box_bounds : forall nw se, g_box_bounds (nw, se) = box_bounds nw se.
Proof. reflexivity. Qed.

Lemma geq_point_bounds : forall p, g_point_bounds p = point_bounds p.
Proof. reflexivity. Qed.

(* ---- unions: multi-shapes and collections *)
Lemma geq_multi_bounds : forall bs, g_multi_bounds bs = multi_bounds bs.
Proof.
  intros. unfold g_multi_bounds, multi_bounds, m_bounds, geoshapes. rewrite map_same.
  destruct bs as [|b bs]; reflexivity.
Qed.

Lemma geq_collection_bounds : forall bs, g_collection_bounds bs = multi_bounds bs.
Proof.
  intros. unfold g_collection_bounds, multi_bounds, m_bounds, geoshapes. rewrite map_same.
  destruct bs as [|b bs]; reflexivity.
Qed.

(* ---- circumscribing rectangles *)
Lemma geq_polygonlike_rect : forall b, g_polygonlike_rect b = rect_of_bounds b.
Proof. intros [[[a b] c] d]. reflexivity. Qed.

Lemma geq_linelike_rect : forall b, g_linelike_rect b = rect_of_bounds b.
Proof. intros [[[a b] c] d]. reflexivity. Qed.

(* GeoLineString overrides the mix-in: the same rectangle, from its own min/max *)
Lemma geq_linestring_rect : forall vs,
  g_linestring_rect vs = match bounds_of vs with Ok b => Ok (rect_of_bounds b) | Err e => Err e end.
Proof.
  intros. unfold g_linestring_rect, bounds_of, to_float, l_vertices. rewrite map_same.
  destruct vs as [|v vs]; reflexivity.
Qed.

(* GeoBox is its own circumscribing rectangle; it has exactly the box's bounds (C09_rect_has_bounds) *)
Lemma geq_box_rect : forall nw se, g_box_rect (nw, se) = rect_of_bounds (box_bounds nw se).
Proof. intros [a b] [c d]. reflexivity. Qed.

(* ---- centroid + farthest-vertex circles, for every vertex type and distance function *)
Section Circles.
  Variable V : Type.
  Variable dist : V -> V -> Z.

  Definition circle_of (c : V) (r : res Z) : res (V * Z) :=
    match r with Ok x => Ok (c, x) | Err e => Err e end.

  Lemma geq_linestring_circle : forall c vs,
    g_linestring_circle V dist (mkvline V c vs) = circle_of c (far_radius V dist c vs).
  Proof. intros. unfold g_linestring_circle, far_radius, circle_of. cbn. destruct (maxl _); reflexivity. Qed.

  Lemma geq_box_circle : forall c nw,
    g_box_circle V dist (mkvbox V c nw) = (c, box_radius V dist c nw).
  Proof. reflexivity. Qed.

  Lemma geq_multilinestring_circle : forall c (ms : list (list V)),
    g_multilinestring_circle V dist (mkvmulti V _ c ms) = circle_of c (far_radius V dist c (concat ms)).
  Proof.
    intros. unfold g_multilinestring_circle, far_radius, circle_of, vm_vertices. cbn.
    rewrite flat_map_map_concat. destruct (maxl _); reflexivity.
  Qed.

  Lemma geq_multipoint_circle : forall c (ms : list V),
    g_multipoint_circle V dist (mkvmulti V _ c ms) = circle_of c (far_radius V dist c ms).
  Proof. intros. unfold g_multipoint_circle, far_radius, circle_of, vp_centroid. cbn. destruct (maxl _); reflexivity. Qed.

  Lemma geq_multipolygon_circle : forall c (ms : list (list V)),
    g_multipolygon_circle V dist (mkvmulti V _ c ms) = circle_of c (far_radius V dist c (concat ms)).
  Proof.
    intros. unfold g_multipolygon_circle, far_radius, circle_of, vm_bounding_coords. cbn.
    rewrite flat_map_map_concat. destruct (maxl _); reflexivity.
  Qed.
End Circles.
