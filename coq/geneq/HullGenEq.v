(* The translator tie for the orientation test of convex_hull: the definition regenerated from
   the working tree equals the model's [cross] for ALL arguments.  Compiled on every run against
   the fresh HullGen.v. *)
From GV Require Import Prelude HullM.
From GVgen Require Import HullGen.
Open Scope Z_scope.

Lemma geq_cross : forall o a b, g_cross o a b = cross o a b.
Proof. intros. unfold g_cross, cross. ring. Qed.
