(* The translator tie for C10: the definitions regenerated from the working tree
   (_geometry.coordinate_vector_cross_product, _geometry.convex_hull with its sort key, the condition / pop / iteration
   of both monotone-chain loops, the Multi*.convex_hull and CollectionBase.convex_hull callers) equal the model of
   HullM.v for ALL arguments.  Compiled on every run against the fresh HullGen.v.

   A Python list is the Coq list in the same order in HullGen.v; the model keeps its stack with the top at the head.
   The loop lemmas therefore relate a generated stack [rev st] to the model stack [st]. *)
From GV Require Import Prelude HullM.
From GVgen Require Import HullGen.
Open Scope Z_scope.

Lemma geq_cross : forall o a b, g_cross o a b = cross o a b.
Proof. intros. unfold g_cross, cross. ring. Qed.

(* ---- sorted(set(...), key=...) ------------------------------------------------------------------------------ *)
(* the key is the pair (longitude, latitude) itself: injective, and Python's tuple order on keys is the model's order *)
Lemma geq_hull_key : forall x, g_convex_hull_key x = x.
Proof. intros [a b]. reflexivity. Qed.

Lemma geq_hull_key_order : forall a b, py_lex_ltb (g_convex_hull_key a) (g_convex_hull_key b) = pt_ltb a b.
Proof. intros [a1 a2] [b1 b2]. reflexivity. Qed.

Lemma geq_hull_sorted_set : forall l, py_sorted_set g_convex_hull_key l = dedup_sort l.
Proof.
  assert (Hi : forall p l, py_insert_by g_convex_hull_key p l = insert p l).
  { intros p l. induction l as [|q l IH]; cbn [py_insert_by insert]; [reflexivity|].
    destruct p as [p1 p2], q as [q1 q2]. change (py_lex_ltb (g_convex_hull_key (p1, p2)) (g_convex_hull_key (q1, q2)))
      with (pt_ltb (p1, p2) (q1, q2)). rewrite IH. reflexivity. }
  intros l. unfold py_sorted_set, dedup_sort. induction l as [|p l IH]; cbn [fold_right]; [reflexivity|].
  rewrite IH. apply Hi.
Qed.

(* ---- the stack loops, generically ----------------------------------------------------------------------------- *)
(* what the model's pop_while tests and does, on the model stack (top at the head) *)
Definition m_cond (c : pt) (st : list pt) : bool :=
  match st with b :: a :: _ => cross a b c <=? 0 | _ => false end.

(* the model's structurally recursive pop_while IS the while loop with condition m_cond and body tl *)
Lemma pop_while_unfold : forall c st, pop_while c st = if m_cond c st then pop_while c (tl st) else st.
Proof. intros c [|b [|a st]]; reflexivity. Qed.

Lemma pop_while_exit : forall c st, m_cond c (pop_while c st) = false.
Proof.
  intros c st. induction st as [|b st IH]; [reflexivity|].
  destruct st as [|a st]; [reflexivity|]. cbn [pop_while].
  destruct (cross a b c <=? 0) eqn:E; [exact IH|]. cbn. exact E.
Qed.

Lemma neg_index_1 : forall l b, py_neg_index (l ++ [b]) 1 = b.
Proof.
  intros. unfold py_neg_index. rewrite app_length. cbn [length].
  replace (length l + 1 - 1)%nat with (length l) by lia.
  rewrite app_nth2 by lia. rewrite Nat.sub_diag. reflexivity.
Qed.

Lemma neg_index_2 : forall l a b, py_neg_index ((l ++ [a]) ++ [b]) 2 = a.
Proof.
  intros. unfold py_neg_index. rewrite !app_length. cbn [length].
  replace (length l + 1 + 1 - 2)%nat with (length l) by lia.
  rewrite <- app_assoc. rewrite app_nth2 by lia. rewrite Nat.sub_diag. reflexivity.
Qed.

Section StackLoop.
  Variable cond : pt -> list pt -> bool.
  Variable step : pt -> list pt -> list pt.
  Hypothesis Hcond : forall c st, cond c (rev st) = m_cond c st.
  Hypothesis Hstep : forall c st, step c (rev st) = rev (tl st).

  Lemma sl_while : forall c n st, (length st <= n)%nat ->
    py_while (cond c) (step c) n (rev st) = rev (pop_while c st).
  Proof.
    intros c n. induction n as [|n IH]; intros st Hn.
    - destruct st; [reflexivity|cbn in Hn; lia].
    - cbn [py_while]. rewrite Hcond, (pop_while_unfold c st).
      destruct (m_cond c st) eqn:E; [|reflexivity].
      rewrite Hstep. apply IH. destruct st; cbn in *; lia.
  Qed.

  (* the fuel [length lower] is never exhausted early: the condition is false when py_while stops *)
  Lemma sl_exit : forall c lower,
    cond c (py_while (cond c) (step c) (length lower) lower) = false.
  Proof.
    intros c lower. rewrite <- (rev_involutive lower). rewrite rev_length, sl_while by (rewrite rev_length; lia).
    rewrite Hcond. apply pop_while_exit.
  Qed.

  Variable body : list pt -> pt -> list pt.
  Hypothesis Hbody : forall lower c,
    body lower c = py_append (py_while (cond c) (step c) (length lower) lower) c.

  Lemma sl_body : forall st c, body (rev st) c = rev (push st c).
  Proof.
    intros. rewrite Hbody, rev_length, sl_while by lia. unfold py_append, push. reflexivity.
  Qed.

  Lemma sl_fold : forall l st, fold_left body l (rev st) = rev (fold_left push l st).
  Proof.
    induction l as [|x l IH]; intros st; cbn [fold_left]; [reflexivity|].
    rewrite sl_body. apply IH.
  Qed.

  Lemma sl_chain : forall l, fold_left body l [] = chain l.
  Proof. intros. exact (sl_fold l []). Qed.

End StackLoop.

Lemma cond_generic : forall (f : pt -> list pt -> bool),
  (forall c l, f c l = ((2 <=? py_len l) && (g_cross (py_neg_index l 2) (py_neg_index l 1) c <=? 0))) ->
  forall c st, f c (rev st) = m_cond c st.
Proof.
  intros f Hf c st. rewrite Hf. destruct st as [|b [|a st]]; cbn [rev app m_cond].
  - reflexivity.
  - reflexivity.
  - rewrite neg_index_1, neg_index_2, geq_cross. unfold py_len. rewrite !app_length. cbn [length].
    replace (2 <=? Z.of_nat (length (rev st) + 1 + 1)) with true by lia. reflexivity.
Qed.

Lemma step_generic : forall st : list pt, py_pop (rev st) = rev (tl st).
Proof. intros [|b st]; [reflexivity|]. cbn [rev tl]. unfold py_pop. apply removelast_last. Qed.

(* ---- the lower loop ----------------------------------------------------------------------------------------------- *)
(* while len(lower) >= 2 and cross(lower[-2], lower[-1], coord) <= 0   ==  the test pop_while makes *)
Lemma geq_hull_lower_cond : forall c st, g_convex_hull_lower_cond c (rev st) = m_cond c st.
Proof. apply cond_generic. reflexivity. Qed.

(* lower.pop()  ==  dropping the head of the model stack *)
Lemma geq_hull_lower_step : forall c st, g_convex_hull_lower_step c (rev st) = rev (tl st).
Proof. intros. apply step_generic. Qed.

Lemma geq_hull_lower_while : forall c st,
  py_while (g_convex_hull_lower_cond c) (g_convex_hull_lower_step c) (length (rev st)) (rev st) = rev (pop_while c st).
Proof.
  intros. apply (sl_while _ _ geq_hull_lower_cond geq_hull_lower_step). rewrite rev_length. lia.
Qed.

Lemma geq_hull_lower_while_exit : forall c lower,
  g_convex_hull_lower_cond c
    (py_while (g_convex_hull_lower_cond c) (g_convex_hull_lower_step c) (length lower) lower) = false.
Proof. intros. apply (sl_exit _ _ geq_hull_lower_cond geq_hull_lower_step). Qed.

(* one iteration of `for coord in coordinates`: the pops, then the append  ==  HullM.push *)
Lemma geq_hull_lower_body : forall st c, g_convex_hull_lower_body (rev st) c = rev (push st c).
Proof.
  intros. apply (sl_body _ _ geq_hull_lower_cond geq_hull_lower_step). reflexivity.
Qed.

(* ---- the upper loop ----------------------------------------------------------------------------------------------- *)
Lemma geq_hull_upper_cond : forall c st, g_convex_hull_upper_cond c (rev st) = m_cond c st.
Proof. apply cond_generic. reflexivity. Qed.

Lemma geq_hull_upper_step : forall c st, g_convex_hull_upper_step c (rev st) = rev (tl st).
Proof. intros. apply step_generic. Qed.

Lemma geq_hull_upper_while : forall c st,
  py_while (g_convex_hull_upper_cond c) (g_convex_hull_upper_step c) (length (rev st)) (rev st) = rev (pop_while c st).
Proof.
  intros. apply (sl_while _ _ geq_hull_upper_cond geq_hull_upper_step). rewrite rev_length. lia.
Qed.

Lemma geq_hull_upper_while_exit : forall c upper,
  g_convex_hull_upper_cond c
    (py_while (g_convex_hull_upper_cond c) (g_convex_hull_upper_step c) (length upper) upper) = false.
Proof. intros. apply (sl_exit _ _ geq_hull_upper_cond geq_hull_upper_step). Qed.

Lemma geq_hull_upper_body : forall st c, g_convex_hull_upper_body (rev st) c = rev (push st c).
Proof.
  intros. apply (sl_body _ _ geq_hull_upper_cond geq_hull_upper_step). reflexivity.
Qed.

(* ---- the whole function --------------------------------------------------------------------------------------- *)
(* sort + dedup, the <= 1 early return, both loops (the second over reversed(coordinates)), lower[:-1] + upper *)
Lemma geq_convex_hull : forall l, g_convex_hull l = hull l.
Proof.
  intros l. unfold g_convex_hull, hull. rewrite geq_hull_sorted_set.
  generalize (dedup_sort l) as s. intros s.
  rewrite (sl_chain _ _ geq_hull_lower_cond geq_hull_lower_step g_convex_hull_lower_body (fun _ _ => eq_refl)).
  rewrite (sl_chain _ _ geq_hull_upper_cond geq_hull_upper_step g_convex_hull_upper_body (fun _ _ => eq_refl)).
  destruct s as [|x [|y s]]; [reflexivity|reflexivity|].
  unfold hull_sorted, py_pop.
  replace (py_len (x :: y :: s) <=? 1) with false by (unfold py_len; cbn [length]; lia).
  reflexivity.
Qed.

(* ---- the callers -------------------------------------------------------------------------------------------------- *)
(* every caller is GeoPolygon(convex_hull(<gathered vertices>)); with the gathered list written as the concatenation
   of what each member contributes, that is the model's hull_of_members *)
Lemma geq_hull_of_members : forall ms, poly_outline (g_convex_hull (concat ms)) = hull_of_members ms.
Proof. intros. unfold hull_of_members. rewrite geq_convex_hull. reflexivity. Qed.

(* MultiGeoLineString.convex_hull: a member is observed as the list shape.vertices *)
Lemma geq_mline_hull : forall ms, g_mline_hull ms = poly_outline (g_convex_hull (concat ms)).
Proof.
  intros. unfold g_mline_hull, geoshapes_of, member_pts. rewrite flat_map_concat_map, map_id. reflexivity.
Qed.

(* MultiGeoPolygon.convex_hull: a member is observed as the list shape.bounding_coords(kwargs passed through) *)
Lemma geq_mpoly_hull : forall ms, g_mpoly_hull ms = poly_outline (g_convex_hull (concat ms)).
Proof.
  intros. unfold g_mpoly_hull, geoshapes_of, member_pts. rewrite flat_map_concat_map, map_id. reflexivity.
Qed.

(* MultiGeoPoint.convex_hull: a member is observed as its centroid; it contributes that one point *)
Lemma geq_mpoint_hull : forall ps, g_mpoint_hull ps = poly_outline (g_convex_hull (concat (map (fun p => [p]) ps))).
Proof.
  intros. unfold g_mpoint_hull, geoshapes_of, member_pt. rewrite map_id.
  replace (concat (map (fun p : pt => [p]) ps)) with ps; [reflexivity|].
  induction ps as [|p ps IH]; cbn; [reflexivity|]. rewrite <- IH. reflexivity.
Qed.

(* CollectionBase.convex_hull / _get_vertices: what one member contributes, written independently of the source:
   a multi-shape the contributions of its parts in order, a point its centroid, a line its vertices, a polygon its
   bounding_coords(), anything else nothing; MultiShapeBase is tested first. *)
Fixpoint spec_vertices (m : gmember) : list pt :=
  match m with
  | GMulti parts => flat_map spec_vertices parts
  | GPoint c => [c]
  | GLine vs => vs
  | GPoly bc => bc
  | GOther => []
  end.

Lemma geq_get_vertices_1 : forall m, g_get_vertices_1 m = spec_vertices m.
Proof.
  fix IH 1. intros [parts|c|vs|bc|]; cbn [g_get_vertices_1 spec_vertices gm_bounding]; try reflexivity.
  induction parts as [|p parts IHp]; cbn [flat_map]; [reflexivity|]. rewrite IH, IHp. reflexivity.
Qed.

Lemma geq_coll_hull : forall ms, g_coll_hull ms = poly_outline (g_convex_hull (concat (map spec_vertices ms))).
Proof.
  intros. unfold g_coll_hull, geoshapes_of. rewrite flat_map_concat_map.
  do 3 f_equal. apply map_ext. exact geq_get_vertices_1.
Qed.
