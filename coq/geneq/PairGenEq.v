(* Translator tie for two helpers of C02 / C01: utils/functions.py::is_sub_list and
   _geometry.py::do_bounds_overlap, regenerated from the working tree, equal PairM.is_sub_list and
   GeomM.bounds_overlap for ALL arguments.  The generated is_sub_list works on Python integers (Z) with
   Python's full slice semantics; the model works on nat offsets: the proof shows that under the length
   guard every slice bound is in range, where the two agree. *)
From GV Require Import Prelude GeomM PairM.
From GVgen Require Import PairGen.
Open Scope Z_scope.

Lemma geq_do_bounds_overlap : forall lo1 hi1 lo2 hi2,
  g_do_bounds_overlap (lo1, hi1) (lo2, hi2) = bounds_overlap lo1 hi1 lo2 hi2.
Proof. reflexivity. Qed.

Lemma if_same_bool (x : bool) : (if x then true else false) = x.
Proof. destruct x; reflexivity. Qed.

Lemma loop_any_map_existsb {A B} (f : B -> bool) (h : A -> B) (g : A -> bool) (l : list A) :
  (forall k, In k l -> f (h k) = g k) -> loop_any f (map h l) = existsb g l.
Proof.
  induction l as [|x l IH]; intros H; cbn; [reflexivity|].
  rewrite (H x (or_introl eq_refl)), IH by (intros k Hk; apply H; right; exact Hk).
  destruct (g x); reflexivity.
Qed.

(* an in-range slice is firstn/skipn *)
Lemma zslice_in_range {A} (l : list A) (i n : nat) :
  (i + n <= length l)%nat ->
  zslice l (0 + Z.of_nat i) (0 + Z.of_nat i + Z.of_nat n) = firstn n (skipn i l).
Proof.
  intros H. unfold zslice, clampi.
  replace (if 0 + Z.of_nat i <? 0 then _ else _) with (Z.of_nat i) by (destruct (0 + Z.of_nat i <? 0) eqn:E; lia).
  replace (if 0 + Z.of_nat i + Z.of_nat n <? 0 then _ else _) with (Z.of_nat i + Z.of_nat n)
    by (destruct (0 + Z.of_nat i + Z.of_nat n <? 0) eqn:E; lia).
  replace (Z.to_nat (Z.max 0 (Z.min (Z.of_nat (length l)) (Z.of_nat i)))) with i by lia.
  replace (Z.to_nat (_ - _)) with n by lia.
  reflexivity.
Qed.

Lemma geq_is_sub_list : forall a b, g_is_sub_list a b = is_sub_list a b.
Proof.
  intros a b. unfold g_is_sub_list, is_sub_list.
  destruct (Z.of_nat (length b) <? Z.of_nat (length a)) eqn:E1;
    destruct (length b <? length a)%nat eqn:E2; try lia.
  rewrite if_same_bool. unfold zrange.
  replace (Z.to_nat (Z.of_nat (length b) - Z.of_nat (length a) + 1 - 0)) with (length b - length a + 1)%nat by lia.
  apply loop_any_map_existsb. intros k Hk. apply in_seq in Hk.
  rewrite zslice_in_range by lia. reflexivity.
Qed.
