(* Translator tie for two helpers of C02 / C01: utils/functions.py::is_sub_list and
   _geometry.py::do_bounds_overlap, regenerated from the working tree, equal PairM.is_sub_list and
   GeomM.bounds_overlap for ALL arguments.  The generated is_sub_list works on Python integers (Z) with
   Python's full slice semantics; the model works on nat offsets: the proof shows that under the length
   guard every slice bound is in range, where the two agree. *)
From GV Require Import Prelude GeomM SweepM PairM.
From GVgen Require Import PairGen.
Open Scope Z_scope.

Lemma geq_do_bounds_overlap : forall lo1 hi1 lo2 hi2,
  g_do_bounds_overlap (lo1, hi1) (lo2, hi2) = bounds_overlap lo1 hi1 lo2 hi2.
Proof. reflexivity. Qed.

Lemma if_same_bool (x : bool) : (if x then true else false) = x.
Proof. destruct x; reflexivity. Qed.

Lemma loop_any_map_existsb {A B} (f : B -> bool) (h : A -> B) (g : A -> bool) (l : list A) :
  (forall k, In k l -> f (h k) = g k) -> loop_any f (map h l) = existsb g l.
Proof.
  induction l as [|x l IH]; intros H; cbn; [reflexivity|].
  rewrite (H x (or_introl eq_refl)), IH by (intros k Hk; apply H; right; exact Hk).
  destruct (g x); reflexivity.
Qed.

(* an in-range slice is firstn/skipn *)
Lemma zslice_in_range {A} (l : list A) (i n : nat) :
  (i + n <= length l)%nat ->
  zslice l (0 + Z.of_nat i) (0 + Z.of_nat i + Z.of_nat n) = firstn n (skipn i l).
Proof.
  intros H. unfold zslice, clampi.
  replace (if 0 + Z.of_nat i <? 0 then _ else _) with (Z.of_nat i) by (destruct (0 + Z.of_nat i <? 0) eqn:E; lia).
  replace (if 0 + Z.of_nat i + Z.of_nat n <? 0 then _ else _) with (Z.of_nat i + Z.of_nat n)
    by (destruct (0 + Z.of_nat i + Z.of_nat n <? 0) eqn:E; lia).
  replace (Z.to_nat (Z.max 0 (Z.min (Z.of_nat (length l)) (Z.of_nat i)))) with i by lia.
  replace (Z.to_nat (_ - _)) with n by lia.
  reflexivity.
Qed.

Lemma geq_is_sub_list : forall a b, g_is_sub_list a b = is_sub_list a b.
Proof.
  intros a b. unfold g_is_sub_list, is_sub_list.
  destruct (Z.of_nat (length b) <? Z.of_nat (length a)) eqn:E1;
    destruct (length b <? length a)%nat eqn:E2; try lia.
  rewrite if_same_bool. unfold zrange.
  replace (Z.to_nat (Z.of_nat (length b) - Z.of_nat (length a) + 1 - 0)) with (length b - length a + 1)%nat by lia.
  apply loop_any_map_existsb. intros k Hk. apply in_seq in Hk.
  rewrite zslice_in_range by lia. reflexivity.
Qed.

(* ------------------------------------------------------------------------------------------------------------
   Second part: contains_shape / intersects_shape of PolygonBase, GeoLineString, GeoPoint and contains_coordinate of
   GeoLineString / GeoPoint, regenerated per pair of kinds, equal PairM.contains_shape / PairM.intersects_shape on
   the shapes of those kinds, for ALL shapes (any vertex lists, holes and time bounds) and every w.
   do_edges_intersect is SweepM.sweep GeomM.hit here (tied to the source in SweepGenEq); a polygon-like receiver's
   contains_coordinate is PairM.contains_coordinate (GeomGenEq). *)
Definition polylike (s : shape) : Prop := match s with Poly _ _ _ | Box _ _ _ _ => True | _ => False end.

Lemma flat_map_id {A} (l : list (list A)) : flat_map (fun r => r) l = concat l.
Proof. induction l as [|x l IH]; cbn; [reflexivity|]. now rewrite IH. Qed.

(* o_edges[0][0][0] *)
Lemma first_vertex_index {R} (er : list (list seg)) (K : pt -> res R) :
  match py_index0 er with Err e => Err e | Ok r => match py_index0 r with Err e => Err e | Ok e0 => K (fst e0) end end
  = match first_vertex er with Err e => Err e | Ok v => K v end.
Proof. destruct er as [|[|e r] rs]; reflexivity. Qed.

Lemma geq_line_contains_coordinate : forall w vs d c,
  g_line_contains_coordinate (Ln vs d) c = contains_coordinate w (Ln vs d) c.
Proof. reflexivity. Qed.
Lemma geq_point_contains_coordinate : forall w p d c,
  g_point_contains_coordinate (Pt p d) c = contains_coordinate w (Pt p d) c.
Proof. reflexivity. Qed.

Ltac open_pair :=
  cbv beta delta [g_poly_contains_poly g_poly_contains_line g_poly_contains_point g_line_contains_poly g_line_contains_line
    g_line_contains_point g_point_contains_poly g_point_contains_line g_point_contains_point g_poly_intersects_poly
    g_poly_intersects_line g_poly_intersects_point g_line_intersects_poly g_line_intersects_line g_line_intersects_point
    g_point_intersects_poly g_point_intersects_line g_point_intersects_point
    contains_shape intersects_shape intersects_shape_gen intersects_tail edges_cross in_coord point_branch
    do_edges_intersect_ poly_cc sh_edges sh_segments sh_centroid sh_vertices];
  cbv zeta; rewrite ?flat_map_id;
  repeat match goal with |- context [edge_rings (Ln ?vs ?d)] => change (edge_rings (Ln vs d)) with [ring_edges vs] end.
(* the common tail: the sweep, then the first-vertex fallbacks *)
Ltac tail :=
  match goal with |- context [sweep hit ?a ?b] => destruct (sweep hit a b) as [[|]|]; try reflexivity end;
  repeat (cbn [py_index0 first_vertex fst];
          match goal with
          | |- context [py_index0 ?l] => destruct l; try reflexivity
          | |- context [if ?c then _ else _] => destruct c; try reflexivity
          end).

Section PairEq.
  Variable w : Z.

  (* ---- contains_shape *)
  Lemma geq_poly_contains_poly : forall a b, polylike a -> polylike b -> g_poly_contains_poly w a b = contains_shape w a b.
  Proof. intros a b Ha Hb; destruct a, b; try contradiction; open_pair; tail. Qed.
  Lemma geq_poly_contains_line : forall a vs d, polylike a -> g_poly_contains_line w a (Ln vs d) = contains_shape w a (Ln vs d).
  Proof. intros a vs d Ha; destruct a; try contradiction; open_pair; tail. Qed.
  Lemma geq_poly_contains_point : forall a p d, polylike a -> g_poly_contains_point w a (Pt p d) = contains_shape w a (Pt p d).
  Proof. intros a p d Ha; destruct a; try contradiction; reflexivity. Qed.
  Lemma geq_line_contains_poly : forall vs d b, polylike b -> g_line_contains_poly (Ln vs d) b = contains_shape w (Ln vs d) b.
  Proof. intros vs d b Hb; destruct b; try contradiction; reflexivity. Qed.
  Lemma geq_line_contains_line : forall vs d us d', g_line_contains_line (Ln vs d) (Ln us d') = contains_shape w (Ln vs d) (Ln us d').
  Proof. intros. open_pair. cbn. rewrite geq_is_sub_list. reflexivity. Qed.
  Lemma geq_line_contains_point : forall vs d p d', g_line_contains_point (Ln vs d) (Pt p d') = contains_shape w (Ln vs d) (Pt p d').
  Proof. reflexivity. Qed.
  Lemma geq_point_contains_poly : forall p d b, polylike b -> g_point_contains_poly (Pt p d) b = contains_shape w (Pt p d) b.
  Proof. intros p d b Hb; destruct b; try contradiction; reflexivity. Qed.
  Lemma geq_point_contains_line : forall p d vs d', g_point_contains_line (Pt p d) (Ln vs d') = contains_shape w (Pt p d) (Ln vs d').
  Proof. reflexivity. Qed.
  Lemma geq_point_contains_point : forall p d q d', g_point_contains_point (Pt p d) (Pt q d') = contains_shape w (Pt p d) (Pt q d').
  Proof. reflexivity. Qed.

  (* ---- intersects_shape *)
  Lemma geq_poly_intersects_poly : forall a b, polylike a -> polylike b -> g_poly_intersects_poly w a b = intersects_shape w a b.
  Proof. intros a b Ha Hb; destruct a, b; try contradiction; open_pair; tail. Qed.
  Lemma geq_poly_intersects_line : forall a vs d, polylike a -> g_poly_intersects_line w a (Ln vs d) = intersects_shape w a (Ln vs d).
  Proof. intros a vs d Ha; destruct a; try contradiction; open_pair; tail. Qed.
  Lemma geq_poly_intersects_point : forall a p d, polylike a -> g_poly_intersects_point w a (Pt p d) = intersects_shape w a (Pt p d).
  Proof. intros a p d Ha; destruct a; try contradiction; reflexivity. Qed.
  Lemma geq_line_intersects_poly : forall vs d b, polylike b -> g_line_intersects_poly w (Ln vs d) b = intersects_shape w (Ln vs d) b.
  Proof. intros vs d b Hb; destruct b; try contradiction; open_pair; tail. Qed.
  Lemma geq_line_intersects_line : forall vs d us d', g_line_intersects_line (Ln vs d) (Ln us d') = intersects_shape w (Ln vs d) (Ln us d').
  Proof. intros; open_pair; tail. Qed.
  Lemma geq_line_intersects_point : forall vs d p d', g_line_intersects_point (Ln vs d) (Pt p d') = intersects_shape w (Ln vs d) (Pt p d').
  Proof. reflexivity. Qed.
  Lemma geq_point_intersects_poly : forall p d b, polylike b -> g_point_intersects_poly w (Pt p d) b = intersects_shape w (Pt p d) b.
  Proof. intros p d b Hb; destruct b; try contradiction; reflexivity. Qed.
  Lemma geq_point_intersects_line : forall p d vs d', g_point_intersects_line (Pt p d) (Ln vs d') = intersects_shape w (Pt p d) (Ln vs d').
  Proof. reflexivity. Qed.
  Lemma geq_point_intersects_point : forall p d q d', g_point_intersects_point (Pt p d) (Pt q d') = intersects_shape w (Pt p d) (Pt q d').
  Proof. reflexivity. Qed.
End PairEq.
