(* Translator tie for C15: every __eq__ / __hash__ / copy() regenerated from the working tree
   (ValueGen.v, by tools/gen_value.py) equals the function of ValueM.v the theorems of C15 are about,
   for ALL arguments.  The generated code speaks of one record per class; [of_point] ... [of_multi]
   embed those records into the model's [single] / [shape].
   * __eq__ : g_X_eq = single_eqb / area_eqb_gen / shape_eqb on the embedded values; g_X_eq_other (the
     `isinstance` guard) = the model's answer against any value of another class.
   * __hash__ : the generated hashed tuple, read as a key, is the model key ([=]), or for the two
     frozenset keys (GeoPolygon, multi-shapes) is key-equivalent to it (skey_eqv / key_eqv = true):
     the translator dedups (frozenset -> pyset), the model key keeps the raw list; both denote the same set.
   * set comparisons: the translator emits Python's semantics uniformly (pyset + pyset_eq: dedup, same
     size, inclusion).  For multi-shapes that is literally the model.  For the hole edge sets of
     GeoPolygon.__eq__ the model writes mutual inclusion (seteq_b) on the raw lists; [pyset_eq_seteq]
     (from ValueP2.pyset_eq_spec, the pigeonhole argument) proves the two coincide for an equivalence,
     and [pyset_map] / [pyset_eq_map] carry it through the nested frozensets.
   * the rotation search: loop_search with the generated test and step is rot_search (induction on the
     iteration count).
   * GeoPolygon.__init__ (which GeoPolygon.copy() re-runs) = mk_poly / mk_outline.
   * copy(): value level = copy_single / copy_val (mk_poly for GeoPolygon); identity level: the generated
     sharing descriptor interpreted by copy_sobj_by / copy_mobj_by is copy_sobj / copy_obj. *)
From GV Require Import Prelude ValueM ValueP ValueP2.
From GVgen Require Import ValueGen.
From Coq Require Import Setoid.
Open Scope Z_scope.

(* ------------------------------------------------------------------ embeddings *)
Definition of_point (p : point) : single := SPoint (pt_coordinate p) (pt_dt p).
Definition of_line (l : line) : single := SLine (ln_vertices l) (ln_dt l).
Definition of_poly (p : poly) : single := SArea (GPoly (pg_outline p)) (pg_holes p) (pg_dt p).
Definition box_geom (b : box) : geom := GBox (bx_nw b) (bx_se b).
Definition circle_geom (c : circle) : geom := GCircle (ci_center c) (ci_radius c).
Definition ellipse_geom (e : ellipse) : geom := GEllipse (el_center e) (el_major e) (el_minor e) (el_rotation e).
Definition ring_geom (r : ring) : geom := GRing (rg_center r) (rg_inner r) (rg_outer r) (rg_amin r) (rg_amax r).
Definition of_box (b : box) : single := SArea (box_geom b) (bx_holes b) (bx_dt b).
Definition of_circle (c : circle) : single := SArea (circle_geom c) (ci_holes c) (ci_dt c).
Definition of_ellipse (e : ellipse) : single := SArea (ellipse_geom e) (el_holes e) (el_dt e).
Definition of_ring (r : ring) : single := SArea (ring_geom r) (rg_holes r) (rg_dt r).
Definition of_multi (k : mkind) (m : multi) : shape := Multi k (mu_geoshapes m) (mu_dt m).

(* ------------------------------------------------------------------ helper facts *)
Lemma of_nat_eqb (a b : nat) : (Z.of_nat a =? Z.of_nat b) = (a =? b)%nat.
Proof. destruct (Nat.eqb_spec a b) as [->|H]; [apply Z.eqb_refl|]. apply Z.eqb_neq. lia. Qed.

Lemma if_negb_false (b c : bool) : (if negb b then false else c) = b && c.
Proof. destruct b; reflexivity. Qed.

Lemma rot1_rotl l : rot1 l = rotl l.
Proof. reflexivity. Qed.

(* the generated loop (test, step) iterated n times is the model's fuelled search *)
Lemma loop_search_rot s n : forall o,
  loop_search (fun o => list_eqb coord_eqb s o || list_eqb coord_eqb s (rev o)) (fun o => rot1 o) n o
  = rot_search n s o.
Proof. induction n as [|n IH]; intro o; cbn [loop_search rot_search]; [reflexivity|]. rewrite IH. reflexivity. Qed.

Section SetFacts.
  Context {A : Type} (R : A -> A -> bool).
  Hypothesis Rrefl : forall x, R x x = true.
  Hypothesis Rsym : forall x y, R x y = true -> R y x = true.
  Hypothesis Rtrans : forall x y z, R x y = true -> R y z = true -> R x z = true.

  Lemma allP (l : list A) : Forall (fun _ : A => True) l.
  Proof. apply Forall_forall. intros; exact I. Qed.

  (* Python's set(l) == set(m) (dedup, same size, inclusion) is mutual inclusion of l and m *)
  Lemma pyset_eq_seteq l m : pyset_eq R (pyset R l) (pyset R m) = seteq_b R l m.
  Proof.
    apply eq_true_iff_eq.
    rewrite (pyset_eq_spec R (fun _ => True) (fun x _ => Rrefl x) Rsym Rtrans l m (allP l) (allP m)).
    rewrite seteq_b_spec. reflexivity.
  Qed.

  (* frozenset(l) denotes the same set as l *)
  Lemma seteq_pyset l : seteq_b R (pyset R l) l = true.
  Proof.
    destruct (pyset_spec R (fun _ => True) (fun x _ => Rrefl x) Rsym Rtrans l (allP l)) as [_ I].
    apply seteq_b_spec. split.
    - intros x Hx. exists x. split; [now apply pyset_sub in Hx | apply Rrefl].
    - intros y Hy. assert (H : inR R y (pyset R l)) by (apply I; exists y; auto).
      destruct H as (z & Hz & Hzy). exists z. auto.
  Qed.
End SetFacts.

(* sets of images: computing with R on f-images is computing with R' on the arguments *)
Section MapFacts.
  Context {A B : Type} (f : B -> A) (R : A -> A -> bool) (R' : B -> B -> bool).
  Hypothesis Rf : forall x y, R (f x) (f y) = R' x y.

  Lemma mem_b_map x s : mem_b R (f x) (map f s) = mem_b R' x s.
  Proof. unfold mem_b. induction s as [|a s IH]; cbn; [reflexivity|]. now rewrite Rf, IH. Qed.

  Lemma pyset_fold_map l : forall s,
    fold_left (fun s x => if mem_b R x s then s else s ++ [x]) (map f l) (map f s) =
    map f (fold_left (fun s x => if mem_b R' x s then s else s ++ [x]) l s).
  Proof.
    induction l as [|a l IH]; intro s; cbn [map fold_left]; [reflexivity|].
    rewrite mem_b_map. destruct (mem_b R' a s); [apply IH|].
    rewrite <- IH, map_app. reflexivity.
  Qed.
  Lemma pyset_map l : pyset R (map f l) = map f (pyset R' l).
  Proof. exact (pyset_fold_map l []). Qed.

  Lemma pyset_eq_map s t : pyset_eq R (map f s) (map f t) = pyset_eq R' s t.
  Proof.
    unfold pyset_eq. rewrite !map_length. f_equal.
    induction s as [|a s IH]; cbn; [reflexivity|]. now rewrite mem_b_map, IH.
  Qed.
End MapFacts.

Lemma edge_eqb_refl e : edge_eqb e e = true.
Proof. now apply edge_eqb_eq. Qed.
Lemma edge_eqb_sym a b : edge_eqb a b = true -> edge_eqb b a = true.
Proof. rewrite !edge_eqb_eq. congruence. Qed.
Lemma edge_eqb_trans a b c : edge_eqb a b = true -> edge_eqb b c = true -> edge_eqb a c = true.
Proof. rewrite !edge_eqb_eq. congruence. Qed.
Lemma coord_eqb_sym a b : coord_eqb a b = true -> coord_eqb b a = true.
Proof. rewrite !coord_eqb_eq. congruence. Qed.
Lemma coord_eqb_trans a b c : coord_eqb a b = true -> coord_eqb b c = true -> coord_eqb a c = true.
Proof. rewrite !coord_eqb_eq. congruence. Qed.

(* frozenset == frozenset of edge tuples, on the deduplicated representatives, is eset_eqb of the raw lists *)
Lemma fset_edges_eq a b :
  pyset_eq edge_eqb (pyset edge_eqb a) (pyset edge_eqb b) = seteq_b edge_eqb a b.
Proof. apply pyset_eq_seteq; [exact edge_eqb_refl | exact edge_eqb_sym | exact edge_eqb_trans]. Qed.

(* set([frozenset({edges}) ...]) == set([...])  is the model's holes comparison *)
Lemma hole_sets_eq (a b : list (list edge)) :
  pyset_eq (pyset_eq edge_eqb) (pyset (pyset_eq edge_eqb) (map (pyset edge_eqb) a))
                               (pyset (pyset_eq edge_eqb) (map (pyset edge_eqb) b))
  = seteq_b (seteq_b edge_eqb) a b.
Proof.
  rewrite !(pyset_map (pyset edge_eqb) (pyset_eq edge_eqb) (seteq_b edge_eqb) fset_edges_eq).
  rewrite (pyset_eq_map (pyset edge_eqb) (pyset_eq edge_eqb) (seteq_b edge_eqb) fset_edges_eq).
  apply pyset_eq_seteq; [exact eset_eqb_refl | exact eset_eqb_sym | exact eset_eqb_trans].
Qed.

(* skey_eqv is symmetric and transitive (reflexive: ValueP2.skey_eqv_refl) *)
Lemma skey_eqv_sym a b : skey_eqv a b = true -> skey_eqv b a = true.
Proof.
  destruct a, b; cbn; try discriminate;
    rewrite ?(seteq_b_sym coord_eqb vset0 vset);
    rewrite !andb_true_iff, ?coord_eqb_eq, ?dt_eqb_eq, ?Z.eqb_eq, ?clist_eqb_eq; intuition congruence.
Qed.
Lemma skey_eqv_trans a b c : skey_eqv a b = true -> skey_eqv b c = true -> skey_eqv a c = true.
Proof.
  destruct a, b; cbn; try discriminate; destruct c; cbn; try discriminate;
    rewrite !andb_true_iff, ?coord_eqb_eq, ?dt_eqb_eq, ?Z.eqb_eq, ?clist_eqb_eq;
    try (intuition congruence).
  intros [H1 ->] [H2 ->]. split; [|reflexivity].
  exact (seteq_b_trans coord_eqb coord_eqb_sym coord_eqb_trans _ _ _ H1 H2).
Qed.

(* ------------------------------------------------------------------ Coordinate, TimeInterval.copy *)
Lemma geq_coord_eq : forall a b, g_coord_eq a b = coord_eqb a b.
Proof. intros. unfold g_coord_eq, coord_eqb, oz_eqb. now rewrite andb_assoc. Qed.
Lemma geq_coord_eq_other : forall a u, g_coord_eq_other a u = false.
Proof. reflexivity. Qed.
(* the hashed tuple (longitude, latitude, z) is the model coordinate itself *)
Lemma geq_coord_hash : forall c : coord, g_coord_hash c = c.
Proof. intros [[x y] z]. reflexivity. Qed.
Lemma geq_dt_copy : forall d, g_dt_copy d = d.
Proof. intros [s e]. reflexivity. Qed.

Lemma dt_copy_id (d : dtv) : match d with Some v => Some (g_dt_copy v) | None => None end = d.
Proof. destruct d as [[s e]|]; reflexivity. Qed.

Section Eq.
  Variable curve : geom -> list coord.
  Variable heqb : hole -> hole -> bool.

  (* ---------------------------------------------------------------- GeoPoint *)
  Lemma geq_point_eq : forall p q, g_point_eq p q = single_eqb curve (of_point p) (of_point q).
  Proof. reflexivity. Qed.
  Lemma geq_point_eq_other : forall p s, (forall q, s <> of_point q) ->
    single_eqb curve (of_point p) s = g_point_eq_other p tt.
  Proof. intros p s H. destruct s; try reflexivity. exfalso. apply (H (mkpoint c d)). reflexivity. Qed.
  Lemma geq_point_hash : forall p,
    KPoint (fst (g_point_hash p)) (snd (g_point_hash p)) = skey_of (of_point p).
  Proof. reflexivity. Qed.
  Lemma geq_point_copy : forall p, g_point_copy p = Ok (copy_single (of_point p)).
  Proof. intros. unfold g_point_copy. rewrite dt_copy_id. reflexivity. Qed.

  (* ---------------------------------------------------------------- GeoLineString *)
  Lemma geq_line_eq : forall p q, g_line_eq p q = single_eqb curve (of_line p) (of_line q).
  Proof. reflexivity. Qed.
  Lemma geq_line_eq_other : forall p s, (forall q, s <> of_line q) ->
    single_eqb curve (of_line p) s = g_line_eq_other p tt.
  Proof. intros p s H. destruct s; try reflexivity. exfalso. apply (H (mkline vs d)). reflexivity. Qed.
  Lemma geq_line_hash : forall p,
    KLine (fst (g_line_hash p)) (snd (g_line_hash p)) = skey_of (of_line p).
  Proof. reflexivity. Qed.
  Lemma geq_line_copy : forall p, g_line_copy p = Ok (copy_single (of_line p)).
  Proof. intros. unfold g_line_copy. rewrite dt_copy_id. reflexivity. Qed.

  (* ---------------------------------------------------------------- GeoPolygon *)
  Lemma geq_poly_eq : forall p q, g_poly_eq curve p q = single_eqb curve (of_poly p) (of_poly q).
  Proof.
    intros p q. unfold g_poly_eq, of_poly. cbn [single_eqb]. unfold area_eqb, area_eqb_gen, outline_eqb.
    cbv zeta. rewrite !if_negb_false, !of_nat_eqb, Nat2Z.id, loop_search_rot.
    unfold hole_bc. rewrite <- !andb_assoc. do 4 f_equal.
    rewrite <- !(map_map (fun h => dedges (bc curve (hgeom h))) (pyset edge_eqb)).
    exact (hole_sets_eq _ _).
  Qed.
  Lemma geq_poly_eq_other : forall p g hs d, (forall o, g <> GPoly o) ->
    area_eqb curve (GPoly (pg_outline p)) (pg_holes p) (pg_dt p) g hs d = g_poly_eq_other p tt.
  Proof. intros p g hs d H. destruct g; try reflexivity. exfalso. eapply H; reflexivity. Qed.
  (* frozenset(outline): the deduplicated list is key-equivalent to the model key (same set, same dt) *)
  Lemma geq_poly_hash : forall p,
    skey_eqv (KPoly (fst (g_poly_hash p)) (snd (g_poly_hash p))) (skey_of (of_poly p)) = true.
  Proof.
    intros. cbn. rewrite dt_eqb_refl, andb_true_r.
    apply seteq_pyset; [exact coord_eqb_refl | exact coord_eqb_sym | exact coord_eqb_trans].
  Qed.
  (* GeoPolygon.__init__: IndexError on the empty outline, else the ring closed and oriented by mk_outline *)
  Lemma geq_poly_init : forall o hs d u b,
    g_poly_init o hs d u b =
    match o with [] => Err IndexError | _ => Ok (SArea (GPoly (mk_outline b o)) hs d) end.
  Proof.
    intros. unfold g_poly_init, mk_outline, close_ring. destruct o as [|c o]; [reflexivity|].
    set (l := c :: o). destruct (coord_eqb (hd dflt l) (last l dflt)); cbn [negb]; cbv zeta;
      destruct (xorb _ b); reflexivity.
  Qed.
  Lemma geq_poly_init_mk : forall o hs d u, g_poly_init o hs d u false = mk_poly o hs d.
  Proof. intros. rewrite geq_poly_init. destruct o; reflexivity. Qed.
  Lemma geq_poly_copy : forall p,
    g_poly_copy p = mk_poly (pg_outline p) (pg_holes p) (pg_dt p) /\
    (pg_outline p <> [] -> g_poly_copy p = Ok (copy_single (of_poly p))).
  Proof.
    intros. unfold g_poly_copy. rewrite dt_copy_id, geq_poly_init_mk. split; [reflexivity|].
    unfold id, of_poly. destruct (pg_outline p); [congruence | reflexivity].
  Qed.

  (* ---------------------------------------------------------------- GeoBox / GeoCircle / GeoEllipse / GeoRing *)
  Ltac area := intros; cbv [g_box_eq g_circle_eq g_ellipse_eq g_ring_eq box_geom circle_geom ellipse_geom ring_geom
                            area_eqb_gen]; rewrite ?andb_assoc; reflexivity.
  Ltac other H := let g := fresh "g" in
                  intros ? g ? ? H; destruct g; try reflexivity; exfalso; eapply H; reflexivity.

  Lemma geq_box_eq : forall a b, g_box_eq heqb a b =
    area_eqb_gen curve heqb (box_geom a) (bx_holes a) (bx_dt a) (box_geom b) (bx_holes b) (bx_dt b).
  Proof. area. Qed.
  Lemma geq_box_eq_other : forall a g hs d, (forall x y, g <> GBox x y) ->
    area_eqb_gen curve heqb (box_geom a) (bx_holes a) (bx_dt a) g hs d = g_box_eq_other a tt.
  Proof. other H. Qed.
  Lemma geq_box_hash : forall a, let t := g_box_hash a in
    KBox (fst (fst t)) (snd (fst t)) (snd t) = skey_of (of_box a).
  Proof. reflexivity. Qed.
  Lemma geq_box_copy : forall a, g_box_copy a = Ok (copy_single (of_box a)).
  Proof. intros. unfold g_box_copy. rewrite dt_copy_id. reflexivity. Qed.

  Lemma geq_circle_eq : forall a b, g_circle_eq heqb a b =
    area_eqb_gen curve heqb (circle_geom a) (ci_holes a) (ci_dt a) (circle_geom b) (ci_holes b) (ci_dt b).
  Proof. area. Qed.
  Lemma geq_circle_eq_other : forall a g hs d, (forall x y, g <> GCircle x y) ->
    area_eqb_gen curve heqb (circle_geom a) (ci_holes a) (ci_dt a) g hs d = g_circle_eq_other a tt.
  Proof. other H. Qed.
  Lemma geq_circle_centroid : forall a, g_circle_centroid a = ci_center a.
  Proof. reflexivity. Qed.
  Lemma geq_circle_hash : forall a, let t := g_circle_hash a in
    KCircle (fst (fst t)) (snd (fst t)) (snd t) = skey_of (of_circle a).
  Proof. reflexivity. Qed.
  Lemma geq_circle_copy : forall a, g_circle_copy a = Ok (copy_single (of_circle a)).
  Proof. intros. unfold g_circle_copy. rewrite dt_copy_id. reflexivity. Qed.

  Lemma geq_ellipse_eq : forall a b, g_ellipse_eq heqb a b =
    area_eqb_gen curve heqb (ellipse_geom a) (el_holes a) (el_dt a) (ellipse_geom b) (el_holes b) (el_dt b).
  Proof. area. Qed.
  Lemma geq_ellipse_eq_other : forall a g hs d, (forall x y z w, g <> GEllipse x y z w) ->
    area_eqb_gen curve heqb (ellipse_geom a) (el_holes a) (el_dt a) g hs d = g_ellipse_eq_other a tt.
  Proof. other H. Qed.
  Lemma geq_ellipse_centroid : forall a, g_ellipse_centroid a = el_center a.
  Proof. reflexivity. Qed.
  (* (centroid, semi_minor, semi_major, rotation, dt) *)
  Lemma geq_ellipse_hash : forall a, let t := g_ellipse_hash a in
    KEllipse (fst (fst (fst (fst t)))) (snd (fst (fst (fst t)))) (snd (fst (fst t))) (snd (fst t)) (snd t)
    = skey_of (of_ellipse a).
  Proof. reflexivity. Qed.
  Lemma geq_ellipse_copy : forall a, g_ellipse_copy a = Ok (copy_single (of_ellipse a)).
  Proof. intros. unfold g_ellipse_copy. rewrite dt_copy_id. reflexivity. Qed.

  Lemma geq_ring_eq : forall a b, g_ring_eq heqb a b =
    area_eqb_gen curve heqb (ring_geom a) (rg_holes a) (rg_dt a) (ring_geom b) (rg_holes b) (rg_dt b).
  Proof. area. Qed.
  Lemma geq_ring_eq_other : forall a g hs d, (forall x y z w v, g <> GRing x y z w v) ->
    area_eqb_gen curve heqb (ring_geom a) (rg_holes a) (rg_dt a) g hs d = g_ring_eq_other a tt.
  Proof. other H. Qed.
  (* The hashed tuple of a ring is a function - [ring_hashed], written out - of the model key KRing, which keeps
     (center, inner, outer, angle_min, angle_max, dt): the centroid is the center unless both angles are
     non-zero, and then a function of those five fields (ValueM's comment on KRing). *)
  Variable wc : coord -> Z -> Z -> Z -> Z -> coord.
  Definition ring_hashed (k : skey) : option (coord * Z * Z * Z * Z * dtv) :=
    match k with
    | KRing c i o m x d =>
        Some ((if negb (m =? 0) && negb (x =? 0) then wc c i o m x else c), i, o, m, x, d)
    | _ => None
    end.
  Lemma geq_ring_centroid : forall a, g_ring_centroid wc a =
    if negb (rg_amin a =? 0) && negb (rg_amax a =? 0)
    then wc (rg_center a) (rg_inner a) (rg_outer a) (rg_amin a) (rg_amax a) else rg_center a.
  Proof. reflexivity. Qed.
  Lemma geq_ring_hash : forall a, Some (g_ring_hash wc a) = ring_hashed (skey_of (of_ring a)).
  Proof. reflexivity. Qed.
  Lemma geq_ring_copy : forall a, g_ring_copy a = Ok (copy_single (of_ring a)).
  Proof. intros. unfold g_ring_copy. rewrite dt_copy_id. reflexivity. Qed.

  (* with the holes compared by hole_eqb the four are the model's single_eqb; two holes (no holes of their
     own, compared with the constant-false hole comparison) are the model's hole_eqb *)
  Lemma geq_area_single :
    (forall a b, g_box_eq (hole_eqb curve) a b = single_eqb curve (of_box a) (of_box b)) /\
    (forall a b, g_circle_eq (hole_eqb curve) a b = single_eqb curve (of_circle a) (of_circle b)) /\
    (forall a b, g_ellipse_eq (hole_eqb curve) a b = single_eqb curve (of_ellipse a) (of_ellipse b)) /\
    (forall a b, g_ring_eq (hole_eqb curve) a b = single_eqb curve (of_ring a) (of_ring b)).
  Proof. repeat split; area. Qed.
  Lemma geq_hole_eq : forall x y x' y' d d',
    hole_eqb curve (mkhole (GBox x y) d) (mkhole (GBox x' y') d') =
    g_box_eq (fun _ _ => false) (mkbox x y [] d) (mkbox x' y' [] d').
  Proof. area. Qed.

  (* ---------------------------------------------------------------- MultiShapeBase *)
  Lemma geq_multi_eq : forall k1 k2 a b,
    g_multi_eq (single_eqb curve) a b = shape_eqb curve (of_multi k1 a) (of_multi k2 b).
  Proof. reflexivity. Qed.
  Lemma geq_multi_eq_other : forall k a x,
    shape_eqb curve (of_multi k a) (One x) = g_multi_eq_other a tt.
  Proof. reflexivity. Qed.
  (* (frozenset(hash(x) for x in geoshapes), dt): key-equivalent to the model key *)
  Lemma geq_multi_hash : forall k a, let t := g_multi_hash skey_of a in
    key_eqv (KM (fst t) (snd t)) (hkey (of_multi k a)) = true.
  Proof.
    intros. cbn. rewrite dt_eqb_refl, andb_true_r.
    apply seteq_pyset; [exact skey_eqv_refl | exact skey_eqv_sym | exact skey_eqv_trans].
  Qed.
  Lemma geq_multi_overrides : g_multi_eq_hash_overrides = 0.
  Proof. reflexivity. Qed.
  Lemma geq_mpoint_copy : forall a, g_mpoint_copy copy_single a = Ok (copy_val (of_multi MPoint a)).
  Proof. intros. unfold g_mpoint_copy. rewrite dt_copy_id. reflexivity. Qed.
  Lemma geq_mline_copy : forall a, g_mline_copy copy_single a = Ok (copy_val (of_multi MLine a)).
  Proof. intros. unfold g_mline_copy. rewrite dt_copy_id. reflexivity. Qed.
  Lemma geq_mpoly_copy : forall a, g_mpoly_copy copy_single a = Ok (copy_val (of_multi MPoly a)).
  Proof. intros. unfold g_mpoly_copy. rewrite dt_copy_id. reflexivity. Qed.
End Eq.

(* ------------------------------------------------------------------ copy(): which cells are new *)
Lemma copy_sobj_by_model : forall n s, copy_sobj_by HSame PDeep DFreshIfSome n s = copy_sobj n s.
Proof.
  intros. unfold copy_sobj_by, copy_sobj, copy_cell_by, copy_cell.
  destruct (fresh_list (n + 2) (onest (s_own s))) as [nest n1]. destruct (odt (s_own s)); reflexivity.
Qed.
Lemma copy_each_members : forall l n, copy_each copy_sobj n l = copy_members n l.
Proof.
  induction l as [|s l IH]; intro n; cbn [copy_each copy_members]; [reflexivity|].
  destruct (copy_sobj n s) as [s' n1]. rewrite IH. reflexivity.
Qed.
Lemma copy_mobj_by_model : forall n m,
  copy_obj n (OM m) = let (m', n') := copy_mobj_by copy_sobj MEachCopied PDeep DFreshIfSome n m in (OM m', n').
Proof.
  intros. unfold copy_obj, copy_mobj_by. rewrite copy_each_members.
  destruct (copy_members n (m_members m)) as [ms n1]. unfold copy_cell_by, copy_cell.
  destruct (fresh_list (n1 + 2) (onest (m_own m))) as [nest n2]. destruct (odt (m_own m)); reflexivity.
Qed.

Lemma geq_point_copy_obj : forall n s, g_point_copy_obj n s = copy_sobj n s.     Proof. exact copy_sobj_by_model. Qed.
Lemma geq_line_copy_obj : forall n s, g_line_copy_obj n s = copy_sobj n s.       Proof. exact copy_sobj_by_model. Qed.
Lemma geq_poly_copy_obj : forall n s, g_poly_copy_obj n s = copy_sobj n s.       Proof. exact copy_sobj_by_model. Qed.
Lemma geq_box_copy_obj : forall n s, g_box_copy_obj n s = copy_sobj n s.         Proof. exact copy_sobj_by_model. Qed.
Lemma geq_circle_copy_obj : forall n s, g_circle_copy_obj n s = copy_sobj n s.   Proof. exact copy_sobj_by_model. Qed.
Lemma geq_ellipse_copy_obj : forall n s, g_ellipse_copy_obj n s = copy_sobj n s. Proof. exact copy_sobj_by_model. Qed.
Lemma geq_ring_copy_obj : forall n s, g_ring_copy_obj n s = copy_sobj n s.       Proof. exact copy_sobj_by_model. Qed.
Lemma geq_mpoint_copy_obj : forall n m,
  copy_obj n (OM m) = let (m', n') := g_mpoint_copy_obj copy_sobj n m in (OM m', n').
Proof. exact copy_mobj_by_model. Qed.
Lemma geq_mline_copy_obj : forall n m,
  copy_obj n (OM m) = let (m', n') := g_mline_copy_obj copy_sobj n m in (OM m', n').
Proof. exact copy_mobj_by_model. Qed.
Lemma geq_mpoly_copy_obj : forall n m,
  copy_obj n (OM m) = let (m', n') := g_mpoly_copy_obj copy_sobj n m in (OM m', n').
Proof. exact copy_mobj_by_model. Qed.
