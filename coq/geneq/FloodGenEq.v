(* The translator tie for C12: the definitions regenerated from NiemeyerHasher (geostructures/geohash.py) by
   tools/gen_flood.py equal the model of FloodM.v for ALL arguments and for every instantiation of what the class
   delegates (codec, per-cell box test, set.pop order, members' hash sets, agg_fn).  Compiled on every run against the
   fresh FloodGen.v.

   Representation: the generated code keeps `checked` as an insertion-ordered duplicate-free list (checked.add appends),
   the model conses onto it; the two state triples are related by [R] (same valid, same queue, same MEMBERSHIP in
   checked), which is all the loop ever observes of `checked`.  The returned set `valid` is equal on the nose. *)
From Coq Require Import QArith.
From GV Require Import Prelude GeohashM FloodM.
From GVgen Require Import FloodGen.
Open Scope Z_scope.

Lemma fold_left_ext' {A B} (f g : A -> B -> A) : (forall a b, f a b = g a b) ->
  forall l a, fold_left f l a = fold_left g l a.
Proof. intros H l. induction l as [|x l IH]; intros a; cbn; [reflexivity|]. rewrite H. apply IH. Qed.

Lemma py_while_opt_ext {S} (c c' : S -> bool) (s s' : S -> option S) :
  (forall x, c x = c' x) -> (forall x, s x = s' x) ->
  forall fuel x, py_while_opt c s fuel x = py_while_opt c' s' fuel x.
Proof.
  intros Hc Hs fuel. induction fuel as [|f IH]; intros x; cbn; [reflexivity|].
  rewrite Hc, Hs. destruct (c' x); [|reflexivity]. destruct (s' x); [apply IH|reflexivity].
Qed.

(* ---- Python sets as duplicate-free lists ------------------------------------------------------------------------- *)
Section Sets.
  Variable cell : Type.
  Variable ceqb : cell -> cell -> bool.

  Lemma geq_set_mem : forall s x, py_set_mem cell ceqb s x = cmem cell ceqb x s.
  Proof. reflexivity. Qed.
  Lemma geq_set_add : forall x s, py_set_add cell ceqb x s = cadd cell ceqb x s.
  Proof. reflexivity. Qed.
  (* {x for h in hs for x in h}  ==  the model's union of the members' sets *)
  Lemma geq_set_flat : forall hs, py_set_flat cell ceqb hs = hash_multi cell ceqb hs.
  Proof. reflexivity. Qed.
End Sets.

(* ---- the flood fill --------------------------------------------------------------------------------------------------- *)
Section FloodEq.
  Variable cell shape member : Type.
  Variable ceqb : cell -> cell -> bool.
  Variable set_pop : list cell -> option (cell * list cell).
  Variable enc : Q * Q -> Z -> Z -> cell.
  Variable surrounding : hasher -> cell -> Z -> list cell.
  Variable box_touches : cell * Z -> shape -> bool.
  Variable bounding_coords vertices : shape -> list (Q * Q).
  Variable centroid : shape -> Q * Q.
  Variable member_hash : hasher -> member -> list cell.
  Variable hp hl hpoly : hasher -> shape -> list cell.
  (* pop answers None exactly on the empty set (part of C12's pop_ok) *)
  Hypothesis Hpop : forall q, set_pop q = None <-> q = [].

  Notation fst3 := (fun st : FloodM.fstate cell => fst (fst st)).

  Section OneShape.
    Variable self : hasher.
    Variable sh : shape.
    Let nbr := fun gh : cell => surrounding self gh (h_base self).
    Let touch := fun gh : cell => box_touches (gh, h_base self) sh.

    (* the loop body, condition and step in the shape the source has them *)
    Definition pvisit (n : cell) (st : FloodM.fstate cell) : FloodM.fstate cell :=
      let '(valid, checked, queue) := st in
      if py_set_mem cell ceqb checked n then (valid, checked, queue)
      else let checked := py_set_add cell ceqb n checked in
           if touch n then (py_set_add cell ceqb n valid, checked, py_set_add cell ceqb n queue)
           else (valid, checked, queue).
    Definition pcond (st : FloodM.fstate cell) : bool := py_set_nonempty (snd st).
    Definition pstep (st : FloodM.fstate cell) : option (FloodM.fstate cell) :=
      let '(valid, checked, queue) := st in
      match set_pop queue with
      | None => None
      | Some (gh, queue) => Some (fold_left (fun st n => pvisit n st) (nbr gh) (valid, checked, queue))
      end.

    (* what the model's [scan] does for ONE neighbour (the model inlines it in a Fixpoint) *)
    Definition scan1 (n : cell) (st : FloodM.fstate cell) : FloodM.fstate cell :=
      let '(valid, checked, queue) := st in
      if cmem cell ceqb n checked then st
      else if touch n then (cadd cell ceqb n valid, n :: checked, cadd cell ceqb n queue)
      else (valid, n :: checked, queue).

    Lemma scan_cons : forall n ns st, scan cell ceqb touch (n :: ns) st = scan cell ceqb touch ns (scan1 n st).
    Proof.
      intros n ns [[v c] q]. cbn [scan scan1]. destruct (cmem cell ceqb n c); [reflexivity|].
      destruct (touch n); reflexivity.
    Qed.

    (* the model's fuelled loop unfolds to: condition = "pop finds an element", step = scan of its neighbours *)
    Lemma flood_loop_unfold : forall f v c q,
      flood_loop cell ceqb nbr touch set_pop (Datatypes.S f) (v, c, q) =
      match set_pop q with
      | None => Some v
      | Some (gh, q') => flood_loop cell ceqb nbr touch set_pop f (scan cell ceqb touch (nbr gh) (v, c, q'))
      end.
    Proof. reflexivity. Qed.

    Definition R (a b : FloodM.fstate cell) : Prop :=
      fst (fst a) = fst (fst b) /\ snd a = snd b /\
      forall x, cmem cell ceqb x (snd (fst a)) = cmem cell ceqb x (snd (fst b)).

    Lemma visit_R : forall n a b, R a b -> R (pvisit n a) (scan1 n b).
    Proof.
      intros n [[v c] q] [[v' c'] q'] (Hv & Hq & Hc). cbn [fst snd] in Hv, Hq, Hc. subst v' q'.
      unfold R, pvisit, scan1, py_set_add, py_set_mem, cadd, cmem in *. rewrite (Hc n).
      destruct (existsb (ceqb n) c') eqn:E; [repeat split; assumption|].
      assert (Hadd : forall x, existsb (ceqb x) (c ++ [n]) = existsb (ceqb x) (n :: c')).
      { intros x. rewrite existsb_app. cbn [existsb]. rewrite (Hc x).
        destruct (existsb (ceqb x) c'), (ceqb x n); reflexivity. }
      destruct (touch n); repeat split; cbn [fst snd]; auto.
    Qed.

    Lemma fold_R : forall ns a b, R a b ->
      R (fold_left (fun st n => pvisit n st) ns a) (scan cell ceqb touch ns b).
    Proof.
      induction ns as [|n ns IH]; intros a b H; [exact H|].
      rewrite scan_cons. cbn [fold_left]. apply IH, visit_R, H.
    Qed.

    Lemma loop_R : forall fuel a b, R a b ->
      match py_while_opt pcond pstep fuel a with Some st => Some (fst (fst st)) | None => None end =
      flood_loop cell ceqb nbr touch set_pop fuel b.
    Proof.
      induction fuel as [|f IH]; intros [[v c] q] [[v' c'] q'] H; [reflexivity|].
      destruct H as (Hv & Hq & Hc). cbn in Hv, Hq, Hc. subst v' q'.
      rewrite flood_loop_unfold. cbn [py_while_opt]. unfold pcond, pstep. cbn [snd].
      destruct (set_pop q) as [[gh q2]|] eqn:Ep.
      - destruct q as [|x q]; [rewrite (proj2 (Hpop []) eq_refl) in Ep; discriminate|]. cbn [py_set_nonempty].
        apply IH, fold_R. repeat split; cbn; auto.
      - apply Hpop in Ep. subst q. reflexivity.
    Qed.

    Lemma pflood_eq : forall fuel start,
      match py_while_opt pcond pstep fuel ([start], [], [start]) with Some st => Some (fst (fst st)) | None => None end =
      flood cell ceqb nbr touch set_pop start fuel.
    Proof. intros. unfold flood. apply loop_R. repeat split. Qed.
  End OneShape.

  (* -- _hash_polygon -- *)
  (* one iteration of `for near_gh in self._get_surrounding(gh, self.base)` *)
  Lemma geq_hash_polygon_visit : forall self polygon n st,
    g_hash_polygon_visit cell shape ceqb box_touches self polygon n st = pvisit self polygon n st.
  Proof. intros self polygon n [[v c] q]. reflexivity. Qed.

  (* `while queue` *)
  Lemma geq_hash_polygon_cond : forall st, g_hash_polygon_cond cell st = pcond st.
  Proof. intros [[v c] q]. reflexivity. Qed.

  (* gh = queue.pop(); the for loop *)
  Lemma geq_hash_polygon_step : forall self polygon st,
    g_hash_polygon_step cell shape ceqb set_pop surrounding box_touches self polygon st = pstep self polygon st.
  Proof.
    intros self polygon [[v c] q]. unfold g_hash_polygon_step, pstep.
    destruct (set_pop q) as [[gh q2]|]; [|reflexivity].
    f_equal; apply fold_left_ext'; intros a b; apply geq_hash_polygon_visit.
  Qed.

  (* the whole single-shape branch: start cell added untested to valid and queue, the loop, `return valid` *)
  Lemma geq_hash_polygon : forall fuel self polygon,
    g_hash_polygon cell shape ceqb set_pop enc surrounding box_touches bounding_coords fuel self polygon =
    flood cell ceqb (fun gh => surrounding self gh (h_base self)) (fun gh => box_touches (gh, h_base self) polygon)
          set_pop (enc (py_index0 (bounding_coords polygon)) (h_length self) (h_base self)) fuel.
  Proof.
    intros. rewrite <- pflood_eq. unfold g_hash_polygon. cbn [py_set_add py_set_mem existsb app].
    rewrite (py_while_opt_ext _ _ _ _ geq_hash_polygon_cond (geq_hash_polygon_step self polygon)).
    destruct (py_while_opt _ _ _ _) as [[[v c] q]|]; reflexivity.
  Qed.

  (* -- _hash_linestring -- *)
  Lemma geq_hash_linestring_visit : forall self line n st,
    g_hash_linestring_visit cell shape ceqb box_touches self line n st = pvisit self line n st.
  Proof. intros self line n [[v c] q]. reflexivity. Qed.

  Lemma geq_hash_linestring_cond : forall st, g_hash_linestring_cond cell st = pcond st.
  Proof. intros [[v c] q]. reflexivity. Qed.

  Lemma geq_hash_linestring_step : forall self line st,
    g_hash_linestring_step cell shape ceqb set_pop surrounding box_touches self line st = pstep self line st.
  Proof.
    intros self line [[v c] q]. unfold g_hash_linestring_step, pstep.
    destruct (set_pop q) as [[gh q2]|]; [|reflexivity].
    f_equal; apply fold_left_ext'; intros a b; apply geq_hash_linestring_visit.
  Qed.

  Lemma geq_hash_linestring : forall fuel self line,
    g_hash_linestring cell shape ceqb set_pop enc surrounding box_touches vertices fuel self line =
    flood cell ceqb (fun gh => surrounding self gh (h_base self)) (fun gh => box_touches (gh, h_base self) line)
          set_pop (enc (py_index0 (vertices line)) (h_length self) (h_base self)) fuel.
  Proof.
    intros. rewrite <- pflood_eq. unfold g_hash_linestring. cbn [py_set_add py_set_mem existsb app].
    rewrite (py_while_opt_ext _ _ _ _ geq_hash_linestring_cond (geq_hash_linestring_step self line)).
    destruct (py_while_opt _ _ _ _) as [[[v c] q]|]; reflexivity.
  Qed.

  (* -- multi-shapes: the union of the members' own hash sets, in member order -- *)
  Lemma geq_hash_polygon_multi : forall self ms,
    g_hash_polygon_multi cell member ceqb member_hash self ms = hash_multi cell ceqb (map (member_hash self) ms).
  Proof. reflexivity. Qed.
  Lemma geq_hash_linestring_multi : forall self ms,
    g_hash_linestring_multi cell member ceqb member_hash self ms = hash_multi cell ceqb (map (member_hash self) ms).
  Proof. reflexivity. Qed.
  Lemma geq_hash_point_multi : forall self ms,
    g_hash_point_multi cell member ceqb member_hash self ms = hash_multi cell ceqb (map (member_hash self) ms).
  Proof. reflexivity. Qed.

  (* -- a single point: the one cell of its centroid -- *)
  Lemma geq_hash_point : forall self p,
    g_hash_point cell shape ceqb enc centroid self p = [enc (centroid p) (h_length self) (h_base self)].
  Proof. reflexivity. Qed.

  (* -- hash_shape: PointLike first, then LineLike, everything else is hashed as a polygon -- *)
  Lemma geq_hash_shape_point : forall self s, g_hash_shape_point cell shape hp self s = hp self s.
  Proof. reflexivity. Qed.
  Lemma geq_hash_shape_line : forall self s, g_hash_shape_line cell shape hl self s = hl self s.
  Proof. reflexivity. Qed.
  Lemma geq_hash_shape_poly : forall self s, g_hash_shape_poly cell shape hpoly self s = hpoly self s.
  Proof. reflexivity. Qed.
End FloodEq.

(* ---- hash_collection / hash_coordinates: insertion-ordered group-by, then agg_fn per key ---------------------------- *)
Section GroupEq.
  Variable cell item val : Type.
  Variable ceqb : cell -> cell -> bool.

  Lemma geq_dict_append : forall (d : list (cell * list item)) k x,
    py_dict_append cell ceqb d k x = dict_append cell item ceqb d k x.
  Proof.
    induction d as [|[k' l] d IH]; intros k x; cbn; [reflexivity|].
    destruct (ceqb k k'); [reflexivity|]. rewrite IH. reflexivity.
  Qed.

  Lemma geq_hash_collection : forall (keys : hasher -> item -> list cell) (agg : list item -> val) self xs,
    g_hash_collection cell item val ceqb keys agg self xs = hash_collection cell item val ceqb (keys self) agg xs.
  Proof.
    intros. unfold g_hash_collection, hash_collection, group, geoshapes_of.
    rewrite (fold_left_ext' _ (fun d x => fold_left (fun d k => dict_append cell item ceqb d k x) (keys self x) d)).
    - apply map_ext. intros [h l]. reflexivity.
    - intros d x. apply fold_left_ext'. intros d' k. apply geq_dict_append.
  Qed.
End GroupEq.

Section CoordsEq.
  Variable cell val : Type.
  Variable ceqb : cell -> cell -> bool.

  Lemma geq_hash_coordinates : forall (enc : Q * Q -> Z -> Z -> cell) (agg : list (Q * Q) -> val) self pts,
    g_hash_coordinates cell val ceqb enc agg self pts =
    hash_collection cell (Q * Q) val ceqb (fun p => [enc p (h_length self) (h_base self)]) agg pts.
  Proof.
    intros. unfold g_hash_coordinates, hash_collection, group.
    rewrite (fold_left_ext' _ (fun d x => fold_left (fun d k => dict_append cell (Q * Q) ceqb d k x)
                                                     [enc x (h_length self) (h_base self)] d)).
    - apply map_ext. intros [h l]. reflexivity.
    - intros d x. cbn [fold_left]. apply geq_dict_append.
  Qed.
End CoordsEq.

(* ---- _get_surrounding against the model's neighbour function --------------------------------------------------------- *)
(* for every codec and every Coordinate constructor: the eight probes, their order, the offsets of two error margins,
   the re-encoding at the same length and base (all symbols abstract, so a mismatch fails at once) *)
Section SurroundEq.
  Variable dec : list Z -> Z -> res (Q * Q * Q * Q).
  Variable enc : Q * Q -> Z -> Z -> list Z.
  Variable mk : Q -> Q -> Q * Q.
  Local Open Scope Q_scope.

  Lemma geq_get_surrounding_generic : forall gh base,
    g_get_surrounding dec enc mk gh base =
    match dec gh base with
    | Err e => Err e
    | Ok (lon, lat, elon, elat) =>
        let e (x y : Q) := enc (mk x y) (py_len gh) base in
        Ok [ e lon (lat + elat * 2);
             e (lon + elon * 2) (lat + elat * 2);
             e (lon + elon * 2) lat;
             e (lon + elon * 2) (lat - elat * 2);
             e lon (lat - elat * 2);
             e (lon - elon * 2) (lat - elat * 2);
             e (lon - elon * 2) lat;
             e (lon - elon * 2) (lat + elat * 2) ]
    end.
  Proof.
    intros. unfold g_get_surrounding. destruct (dec gh base) as [[[[lon lat] elon] elat]|e]; reflexivity.
  Qed.
End SurroundEq.

(* instantiated with the C11 codec model and the C08 Coordinate model: FloodM.get_surrounding *)
Lemma geq_get_surrounding : forall base c gh, cfg_of_base base = Some c ->
  g_get_surrounding (fun s b => decode_niemeyer b s)
                    (fun p len b => match coord_to_niemeyer b p len with Ok s => s | Err _ => [] end) coordinate gh base =
  match decode c gh with Err e => Err e | Ok _ => Ok (get_surrounding c gh) end.
Proof.
  intros base c gh H. rewrite geq_get_surrounding_generic.
  unfold get_surrounding, decode_niemeyer, coord_to_niemeyer. rewrite H.
  destruct (decode c gh) as [[[[lon lat] elon] elat]|e]; [|reflexivity].
  unfold py_len. rewrite Nat2Z.id. reflexivity.
Qed.

Lemma geq_get_surrounding_nbr : forall base c gh, cfg_of_base base = Some c ->
  get_surrounding c gh =
  match g_get_surrounding (fun s b => decode_niemeyer b s)
                          (fun p len b => match coord_to_niemeyer b p len with Ok s => s | Err _ => [] end) coordinate gh base with
  | Ok l => l
  | Err _ => []
  end.
Proof.
  intros base c gh H. rewrite (geq_get_surrounding base c gh H). unfold get_surrounding.
  destruct (decode c gh) as [[[[lon lat] elon] elat]|e]; reflexivity.
Qed.

(* ---- the Niemeyer instance the correspondence runs (FloodK: niemeyer_flood / niemeyer_point / hash_coordinates) ------ *)
Lemma pop_head_empty {A} : forall q : list A, pop_head q = None <-> q = [].
Proof. intros [|x q]; split; intro H; try reflexivity; discriminate. Qed.

Lemma geq_niemeyer_flood_polygon : forall (shape : Type) (touchbox : list Z * Z -> shape -> bool) bc c len base sh fuel,
  g_hash_polygon (list Z) shape str_eqb pop_head (fun p l _ => encode c p (Z.to_nat l)) (fun _ gh _ => get_surrounding c gh)
                 touchbox bc fuel (mkhasher len base) sh =
  niemeyer_flood c (Z.to_nat len) (py_index0 (bc sh)) (fun gh => touchbox (gh, base) sh) fuel.
Proof. intros. rewrite geq_hash_polygon by apply pop_head_empty. reflexivity. Qed.

Lemma geq_niemeyer_flood_linestring : forall (shape : Type) (touchbox : list Z * Z -> shape -> bool) vs c len base sh fuel,
  g_hash_linestring (list Z) shape str_eqb pop_head (fun p l _ => encode c p (Z.to_nat l)) (fun _ gh _ => get_surrounding c gh)
                    touchbox vs fuel (mkhasher len base) sh =
  niemeyer_flood c (Z.to_nat len) (py_index0 (vs sh)) (fun gh => touchbox (gh, base) sh) fuel.
Proof. intros. rewrite geq_hash_linestring by apply pop_head_empty. reflexivity. Qed.

Lemma geq_niemeyer_point : forall (shape : Type) (cen : shape -> Q * Q) c len base p,
  g_hash_point (list Z) shape str_eqb (fun p l _ => encode c p (Z.to_nat l)) cen (mkhasher len base) p =
  niemeyer_point c (Z.to_nat len) (cen p).
Proof. reflexivity. Qed.

Lemma geq_niemeyer_hash_coordinates : forall (val : Type) (agg : list (Q * Q) -> val) c len base pts,
  g_hash_coordinates (list Z) val str_eqb (fun p l _ => encode c p (Z.to_nat l)) agg (mkhasher len base) pts =
  niemeyer_hash_coordinates c (Z.to_nat len) agg pts.
Proof. intros. rewrite geq_hash_coordinates. reflexivity. Qed.
