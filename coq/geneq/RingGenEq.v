(* Translator tie for C14 (and the ring part of C13): ensure_edge_bounds / is_counter_clockwise
   (_geometry.py) and the outline normalisation of GeoPolygon.__init__ (structures.py), regenerated from
   the working tree, equal RingM's adj_lon / edge_term / is_ccw / norm_ring (hence mk_polygon, mk_hole and
   GeoJsonM.ctor_ring) for ALL rings, scales `half` and hole flags. *)
From GV Require Import Prelude RingM GeoJsonM.
From GVgen Require Import RingGen.
Open Scope Z_scope.

(* ensure_edge_bounds keeps the start point and moves only the longitude of the end point *)
Lemma geq_ensure_edge_bounds : forall half a b,
  fst (g_ensure_edge_bounds half a b) = a /\
  lon (snd (g_ensure_edge_bounds half a b)) = adj_lon half a b /\
  lat (snd (g_ensure_edge_bounds half a b)) = lat b.
Proof.
  intros. unfold g_ensure_edge_bounds, adj_lon, mk_unbounded. rewrite Z.gtb_ltb.
  destruct (half <? Z.abs (lon a - lon b)); cbn; auto.
Qed.

(* one summand of the shoelace loop *)
Lemma geq_edge_term : forall half a b,
  (let '(x, y) := g_ensure_edge_bounds half a b in (lon y - lon x) * (lat y + lat x)) = edge_term half a b.
Proof.
  intros. unfold g_ensure_edge_bounds, edge_term, adj_lon, mk_unbounded. rewrite Z.gtb_ltb.
  destruct (half <? Z.abs (lon a - lon b)); cbn; reflexivity.
Qed.

Lemma geq_is_counter_clockwise : forall half r,
  g_is_counter_clockwise half r = match r with [] => Err IndexError | _ :: _ => Ok (is_ccw half r) end.
Proof.
  intros half [|a t]; [reflexivity|].
  unfold g_is_counter_clockwise, is_ccw, ccw_sum, cyc_pairs. cbn [index0 skipn].
  rewrite map_map. do 3 f_equal. apply map_ext. intros [x y]. cbn [fst snd].
  unfold g_ensure_edge_bounds, edge_term, adj_lon, mk_unbounded. rewrite Z.gtb_ltb.
  destruct (half <? Z.abs (lon x - lon y)); cbn; reflexivity.
Qed.

(* GeoPolygon.__init__: close the ring, flip it when its orientation disagrees with _is_hole *)
Lemma geq_polygon_init : forall half o h,
  g_polygon_init half o h = match o with [] => Err IndexError | _ :: _ => Ok (norm_ring half h o) end.
Proof.
  intros half [|a t] h; [reflexivity|].
  unfold g_polygon_init, norm_ring, close_ring, closedb. cbn [index0 index_last].
  destruct (coord_eqb a (last (a :: t) a)); cbn [negb app].
  - rewrite geq_is_counter_clockwise. destruct (negb (xorb (is_ccw half (a :: t)) h)); reflexivity.
  - rewrite geq_is_counter_clockwise. destruct (negb (xorb (is_ccw half (a :: t ++ [a])) h)); reflexivity.
Qed.

(* the constructors the theorems of C14 / C13 are about *)
Lemma geq_mk_hole : forall half a t, g_polygon_init half (a :: t) false = Ok (mk_hole half (a :: t)).
Proof. intros. rewrite geq_polygon_init. reflexivity. Qed.

Lemma geq_mk_polygon : forall half a t hs,
  g_polygon_init half (a :: t) false = Ok (outline (mk_polygon half (a :: t) hs)).
Proof. intros. rewrite geq_polygon_init. reflexivity. Qed.

Lemma geq_ctor_ring : forall half o, g_polygon_init half o false = ctor_ring half o.
Proof. intros. rewrite geq_polygon_init. destruct o; reflexivity. Qed.
