(* The translator tie for the `bounds` properties of the curved shapes (structures.py): GeoCircle.bounds,
   GeoEllipse.centroid / bounds and the full-ring branch of GeoRing.bounds, regenerated from the working tree
   by tools/gen_curvebounds.py, equal the hand model of Model/BoundsCurveM.v (the `_rounded` definitions: the
   code's inverse_haversine_degrees rounds to 7 decimals) for ALL arguments.
   Compiled on every run against the fresh CurveBoundsGen.v. *)
From GV Require Import Prelude SphereM CurveM BoundsCurveM.
From Coq Require Import Reals.
From GVgen Require Import CurveBoundsGen.
Open Scope R_scope.

Lemma geq_ellipse_centroid : forall s, g_ellipse_centroid s = ellipse_centroid s.
Proof. intros. reflexivity. Qed.

Lemma geq_circle_bounds : forall s, g_circle_bounds s = circle_bounds_rounded (c_center s) (c_radius s).
Proof. intros. reflexivity. Qed.

Lemma geq_ellipse_bounds : forall s, g_ellipse_bounds s = ellipse_bounds_rounded s.
Proof. intros. reflexivity. Qed.

Lemma geq_ring_bounds_full : forall s, g_ring_bounds_full s = ring_bounds_full_opt s.
Proof. intros. reflexivity. Qed.
