(* Translator tie for C01 (planar geometry core; the generated find_line_intersection is also what C02's sweep
   calls): the definitions regenerated from the working tree by tools/gen_geom.py equal the GeomM model the
   theorems of Props/C01.v are about, for ALL arguments.

   find_line_intersection: the code DIVIDES (x = det(d, xdiff) / div), the translator emits that division as an
   exact rational (Q); the model cross-multiplies over Z and returns numerator / positive denominator.
   geq_find_line_intersection_Z: same None / Some for every pair of segments, the generated point is Qeq to the
   model's xn/dv, yn/dv, the boundary flag is EQUAL.  geq_find_line_intersection: after Qred of the generated point
   (the canonical representative) the result is Leibniz-equal to GeomM.fli.  round_half_up(., 10) is translated
   as the identity (DESIGN section 3: not part of the model), ensure_edge_bounds as the identity (no antimeridian
   spans), Coordinate(180, y) as (w, y): stated in the header of the generated file.
   _point_in_polygon: the generated loop body and the statements after the loop, iterated by loop_ret, equal
   GeomM.pip_loop (induction on the edge list, using the find_line_intersection lemma at each edge); an empty
   ring raises IndexError, as in Python.
   contains_coordinate (GeoPolygon, GeoBox): `coord in hole` is a Section variable of the generated file; it is
   instantiated with GeomM.hole_contains, and geq_hole_polygon / geq_hole_box prove that GeomM.hole_contains is
   itself the generated contains_coordinate applied to the hole (a hole has no holes of its own). *)
From Coq Require Import QArith.
From GV Require Import Prelude GeomM.
From GVgen Require Import GeomGen.
Open Scope Z_scope.

Lemma geq_do_bounds_overlap : forall lo1 hi1 lo2 hi2,
  g_do_bounds_overlap (lo1, hi1) (lo2, hi2) = bounds_overlap lo1 hi1 lo2 hi2.
Proof. reflexivity. Qed.

Lemma sorted2_fst a b : fst (py_sorted2 a b) = Z.min a b.
Proof. unfold py_sorted2. destruct (b <? a) eqn:E; cbn; lia. Qed.
Lemma sorted2_snd a b : snd (py_sorted2 a b) = Z.max a b.
Proof. unfold py_sorted2. destruct (b <? a) eqn:E; cbn; lia. Qed.

Lemma qdiv_norm n d : d <> 0 -> (inject_Z n / inject_Z d == sgn_fix d n # Z.to_pos (Z.abs d))%Q.
Proof.
  intros Hd. unfold Qdiv, Qinv, Qmult, inject_Z, Qeq, sgn_fix. destruct d as [|p|p]; [congruence| |]; cbn; lia.
Qed.

Lemma qle_l lo x m p : (x == m # p)%Q -> Qle_bool (inject_Z lo) x = (lo * Zpos p <=? m).
Proof.
  intros H. apply Bool.eq_true_iff_eq. rewrite Qle_bool_iff, H, Z.leb_le. unfold Qle, inject_Z. cbn. lia.
Qed.
Lemma qle_r hi x m p : (x == m # p)%Q -> Qle_bool x (inject_Z hi) = (m <=? hi * Zpos p).
Proof.
  intros H. apply Bool.eq_true_iff_eq. rewrite Qle_bool_iff, H, Z.leb_le. unfold Qle, inject_Z. cbn. lia.
Qed.
Lemma qeq_z c x m p : (x == m # p)%Q -> Qeq_bool x (inject_Z c) = (m =? c * Zpos p).
Proof.
  intros H. apply Bool.eq_true_iff_eq. rewrite Qeq_bool_iff, H, Z.eqb_eq. unfold Qeq, inject_Z. cbn. lia.
Qed.

Definition fli_rel (g : option (Q * Q * bool)) (m : option (Z * Z * Z * bool)) : Prop :=
  match g, m with
  | None, None => True
  | Some ((x, y), f), Some (xn, yn, dv, f') =>
      0 < dv /\ (x == xn # Z.to_pos dv)%Q /\ (y == yn # Z.to_pos dv)%Q /\ f = f'
  | _, _ => False
  end.

Lemma core a1x a1y a2x a2y b1x b1y b2x b2y :
  a1x <= a2x -> b1x <= b2x ->
  fli_rel (g_find_line_intersection ((a1x,a1y),(a2x,a2y)) ((b1x,b1y),(b2x,b2y)))
          (fli_core (a1x,a1y) (a2x,a2y) (b1x,b1y) (b2x,b2y)).
Proof.
  intros H1 H2.
  assert (E1 : (a2x <? a1x) = false) by lia. assert (E2 : (b2x <? b1x) = false) by lia.
  lazy beta iota zeta delta [g_find_line_intersection fli_core g_find_line_intersection_get_line_bounds
    g_find_line_intersection_det g_do_bounds_overlap bounds_overlap det2 px py].
  cbn [fst snd]. rewrite E1, E2. cbn [fst snd]. rewrite !sorted2_fst, !sorted2_snd.
  match goal with |- fli_rel (if ?c then _ else _) _ => destruct c end; [exact I|].
  set (dv := (a1x - a2x) * (b1y - b2y) - (b1x - b2x) * (a1y - a2y)).
  destruct (dv =? 0) eqn:Ed; [exact I|].
  assert (Hd : dv <> 0) by lia.
  set (nx := (a1x * a2y - a1y * a2x) * (b1x - b2x) - (b1x * b2y - b1y * b2x) * (a1x - a2x)).
  set (ny := (a1x * a2y - a1y * a2x) * (b1y - b2y) - (b1x * b2y - b1y * b2x) * (a1y - a2y)).
  pose proof (qdiv_norm nx dv Hd) as Hx. pose proof (qdiv_norm ny dv Hd) as Hy.
  set (x := (inject_Z nx / inject_Z dv)%Q) in *. set (y := (inject_Z ny / inject_Z dv)%Q) in *.
  rewrite !(qle_l _ _ _ _ Hx), !(qle_r _ _ _ _ Hx), !(qle_l _ _ _ _ Hy), !(qle_r _ _ _ _ Hy),
    !(qeq_z _ _ _ _ Hx), !(qeq_z _ _ _ _ Hy).
  rewrite Z2Pos.id by lia. rewrite !andb_assoc, !orb_assoc.
  match goal with |- fli_rel (if ?c then _ else _) _ => destruct c end; [|exact I].
  cbn. repeat split; try assumption; lia.
Qed.

Lemma g_fli_flip_l a1x a1y a2x a2y s2 : a2x < a1x ->
  g_find_line_intersection ((a1x,a1y),(a2x,a2y)) s2 = g_find_line_intersection ((a2x,a2y),(a1x,a1y)) s2.
Proof.
  intros H. assert (E1 : (a2x <? a1x) = true) by lia. assert (E2 : (a1x <? a2x) = false) by lia.
  lazy beta iota zeta delta [g_find_line_intersection fst snd]. rewrite E1, E2. reflexivity.
Qed.
Lemma g_fli_flip_r s1 b1x b1y b2x b2y : b2x < b1x ->
  g_find_line_intersection s1 ((b1x,b1y),(b2x,b2y)) = g_find_line_intersection s1 ((b2x,b2y),(b1x,b1y)).
Proof.
  intros H. assert (E1 : (b2x <? b1x) = true) by lia. assert (E2 : (b1x <? b2x) = false) by lia.
  lazy beta iota zeta delta [g_find_line_intersection fst snd]. rewrite E1, E2. reflexivity.
Qed.

Lemma g_fli_ordx s1 s2 :
  g_find_line_intersection s1 s2 = g_find_line_intersection (ordx s1) (ordx s2).
Proof.
  destruct s1 as [[a1x a1y] [a2x a2y]], s2 as [[b1x b1y] [b2x b2y]].
  unfold ordx, px. cbn [fst snd].
  destruct (a2x <? a1x) eqn:E1; destruct (b2x <? b1x) eqn:E2;
    rewrite ?(g_fli_flip_l a1x a1y a2x a2y) by lia; rewrite ?(g_fli_flip_r _ b1x b1y b2x b2y) by lia; reflexivity.
Qed.

(* find_line_intersection against the integer model: same None / Some, the point is the model's
   numerator / denominator as a rational (Qeq), the boundary flag is equal *)
Lemma geq_find_line_intersection_Z : forall s1 s2,
  fli_rel (g_find_line_intersection s1 s2) (fliZ s1 s2).
Proof.
  intros s1 s2. rewrite g_fli_ordx. unfold fliZ.
  destruct s1 as [[a1x a1y] [a2x a2y]], s2 as [[b1x b1y] [b2x b2y]].
  unfold ordx, px. cbn [fst snd].
  destruct (a2x <? a1x) eqn:E1; destruct (b2x <? b1x) eqn:E2; apply core; lia.
Qed.

(* ... and against GeomM.fli, the point as a pair of reduced rationals: Leibniz equality *)
Definition qnorm (r : option (Q * Q * bool)) : option (Q * Q * bool) :=
  match r with Some (x, y, f) => Some (Qred x, Qred y, f) | None => None end.
Lemma geq_find_line_intersection : forall s1 s2,
  qnorm (g_find_line_intersection s1 s2) = fli s1 s2.
Proof.
  intros s1 s2. pose proof (geq_find_line_intersection_Z s1 s2) as H. unfold fli, fli_rel, qnorm in *.
  destruct (g_find_line_intersection s1 s2) as [[[x y] f]|]; destruct (fliZ s1 s2) as [[[[xn yn] dv] f']|];
    try contradiction; [|reflexivity].
  destruct H as (_ & Hx & Hy & ->). rewrite (Qred_complete _ _ Hx), (Qred_complete _ _ Hy). reflexivity.
Qed.

(* ------------------------------------------------------------------ _point_in_polygon *)
Lemma pip_loop_eq w p (fin : Z -> res bool) es :
  (forall v, fin v = Ok ((0 <? v) && negb (v mod 2 =? 0))) ->
  forall cnt, loop_ret (g_point_in_polygon_body1 p false (p, (w, snd p))) fin cnt es = Ok (pip_loop w p es cnt).
Proof.
  intros Hfin. induction es as [|[a b] es IH]; intros cnt; cbn [loop_ret pip_loop]; [apply Hfin|].
  unfold g_point_in_polygon_body1, px, py. cbn [fst snd]. rewrite <- !andb_assoc.
  match goal with |- context [if ?c then inl _ else _] => destruct c end; [reflexivity|].
  pose proof (geq_find_line_intersection_Z (p, (w, snd p)) (a, b)) as H. unfold fli_rel in H.
  destruct (g_find_line_intersection (p, (w, snd p)) (a, b)) as [[[x y] f]|];
    destruct (fliZ (p, (w, snd p)) (a, b)) as [[[[xn yn] dv] f']|]; try contradiction; [|apply IH].
  destruct H as (Hdv & Hx & Hy & ->). cbn [fst snd].
  rewrite (qeq_z _ _ _ _ Hx), (qeq_z _ _ _ _ Hy), Z2Pos.id by lia.
  destruct f'; [|apply IH].
  destruct ((xn =? fst p * dv) && (yn =? snd p * dv)); [reflexivity|].
  destruct (Z.max (snd a) (snd b) <=? snd p); apply IH.
Qed.

(* the ring loop: an empty ring raises IndexError (polygon[0]); otherwise GeomM.pip *)
Lemma geq_point_in_polygon : forall w p r,
  g_point_in_polygon w p r false = match r with [] => Err IndexError | _ :: _ => Ok (pip w p r) end.
Proof.
  intros w p [|v tl]; [reflexivity|]. unfold g_point_in_polygon, pip, py_zip_cyc, cyc_edges. cbn [skipn].
  apply pip_loop_eq. reflexivity.
Qed.

(* ------------------------------------------------------------------ contains_coordinate *)
Lemma holes_loop (hin : hole -> pt -> bool) hs p :
  (if loop_all (fun h => negb (hin h p)) hs then true else false) = negb (existsb (fun h => hin h p) hs).
Proof. induction hs as [|h hs IH]; cbn; [reflexivity|]. destruct (hin h p); cbn; [reflexivity|exact IH]. Qed.

Lemma geq_polygon_contains_coordinate : forall w o hs p, o <> [] ->
  g_polygon_contains_coordinate w (hole_contains w) (mkgpoly o hs) p = Ok (poly_contains w o hs p).
Proof.
  intros w o hs p Ho. unfold g_polygon_contains_coordinate, poly_contains, in_bbox, p_bounds, px, py.
  cbn [p_outline p_holes]. rewrite geq_point_in_polygon. rewrite <- !andb_assoc.
  match goal with |- (if negb ?c then _ else _) = _ => destruct c end; cbn [negb]; [|reflexivity].
  destruct o as [|v tl]; [congruence|]. destruct (pip w p (v :: tl)); cbn [negb]; [|reflexivity].
  rewrite <- (holes_loop (hole_contains w)). destruct (loop_all _ hs); reflexivity.
Qed.

Lemma geq_box_contains_coordinate : forall w nw se hs p,
  g_box_contains_coordinate (hole_contains w) (mkgbox nw se hs) p = box_contains w nw se hs p.
Proof.
  intros w nw se hs p. unfold g_box_contains_coordinate, box_contains, box_in, px, py.
  cbn [b_nw_bound b_se_bound b_holes]. rewrite <- !andb_assoc.
  match goal with |- (if negb ?c then _ else _) = _ => destruct c end; cbn [negb]; [|reflexivity].
  apply holes_loop.
Qed.

(* `coord in hole` is the hole's own contains_coordinate: GeomM.hole_contains is the generated code applied to a
   hole (a polygon or a box without holes of its own), whatever is passed for the holes of the hole *)
Lemma geq_hole_polygon : forall w hin o p, o <> [] ->
  g_polygon_contains_coordinate w hin (mkgpoly o []) p = Ok (hole_contains w (HPoly o) p).
Proof.
  intros w hin o p Ho. unfold g_polygon_contains_coordinate, hole_contains, ring_contains, in_bbox, p_bounds, px, py.
  cbn [p_outline p_holes loop_all]. rewrite geq_point_in_polygon.
  repeat match goal with |- context [?a <=? ?b] => destruct (a <=? b) end; cbn [negb andb]; try reflexivity.
  destruct o as [|v tl]; [congruence|]. destruct (pip w p (v :: tl)); reflexivity.
Qed.
Lemma geq_hole_box : forall w hin nw se p,
  g_box_contains_coordinate hin (mkgbox nw se []) p = hole_contains w (HBox nw se) p.
Proof.
  intros w hin nw se p. unfold g_box_contains_coordinate, hole_contains, box_in, px, py.
  cbn [b_nw_bound b_se_bound b_holes loop_all]. rewrite <- !andb_assoc.
  match goal with |- (if negb ?c then _ else _) = _ => destruct c end; reflexivity.
Qed.

(* what C02's sweep asks of find_line_intersection: `if intersection:` *)
Lemma geq_hit : forall a b,
  (match g_find_line_intersection a b with Some _ => true | None => false end) = hit a b.
Proof.
  intros a b. unfold hit. rewrite <- geq_find_line_intersection.
  destruct (g_find_line_intersection a b) as [[[x y] f]|]; reflexivity.
Qed.
