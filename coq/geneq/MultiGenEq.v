(* Translator tie for C04: the member loops regenerated from _base.py / structures.py equal the
   model loops, for all member lists and every member-level predicate. *)
From GV Require Import Prelude ShapeM.
From GVgen Require Import MultiGen.

Section Eq.
  Variables member sshape coord : Type.
  Variable cc : member -> coord -> bool.
  Variable cs : member -> sshape -> bool.
  Variable is_ : member -> sshape -> bool.
  Variables xcs xis : sshape -> bool.

  Lemma if_id (b : bool) : (if b then true else false) = b.  Proof. destruct b; reflexivity. Qed.

  Lemma loop_all_ext {A} (f g : A -> bool) l : (forall x, f x = g x) -> loop_all f l = loop_all g l.
  Proof. intros H. induction l as [|x l IH]; cbn; [reflexivity|]. rewrite H, IH. reflexivity. Qed.
  Lemma loop_any_ext {A} (f g : A -> bool) l : (forall x, f x = g x) -> loop_any f l = loop_any g l.
  Proof. intros H. induction l as [|x l IH]; cbn; [reflexivity|]. rewrite H, IH. reflexivity. Qed.

  Ltac crush := intros; cbv [g_multi_cc g_multi_cs_single g_multi_cs_parts g_multi_is_single g_multi_is_parts
                             g_poly_cs_multi g_poly_is_multi g_line_cs_multi g_line_is_multi g_point_cs_multi
                             multi_cc multi_cs multi_is single_is_multi single_cs_multi geoshapes];
                rewrite ?if_id;
                first [ reflexivity
                      | apply loop_all_ext; intros; rewrite ?if_id; reflexivity
                      | apply loop_any_ext; intros; rewrite ?if_id; reflexivity ].

  Lemma geq_multi_cc : forall ms c, g_multi_cc member coord cc ms c = multi_cc member coord cc ms c.   Proof. crush. Qed.
  Lemma geq_multi_cs_single : forall ms s,
    g_multi_cs_single member sshape cs ms s = multi_cs member sshape cs ms (Single s).                   Proof. crush. Qed.
  Lemma geq_multi_cs_parts : forall ms ps,
    g_multi_cs_parts member sshape cs ms ps = multi_cs member sshape cs ms (Parts ps).                   Proof. crush. Qed.
  Lemma geq_multi_is_single : forall ms s,
    g_multi_is_single member sshape is_ ms s = multi_is member sshape is_ ms (Single s).                 Proof. crush. Qed.
  Lemma geq_multi_is_parts : forall ms ps,
    g_multi_is_parts member sshape is_ ms ps = multi_is member sshape is_ ms (Parts ps).                 Proof. crush. Qed.
  Lemma geq_poly_cs_multi : forall u ps, g_poly_cs_multi sshape xcs u ps = single_cs_multi sshape xcs ps. Proof. crush. Qed.
  Lemma geq_poly_is_multi : forall u ps, g_poly_is_multi sshape xis u ps = single_is_multi sshape xis ps. Proof. crush. Qed.
  Lemma geq_line_cs_multi : forall u ps, g_line_cs_multi sshape xcs u ps = single_cs_multi sshape xcs ps. Proof. crush. Qed.
  Lemma geq_line_is_multi : forall u ps, g_line_is_multi sshape xis u ps = single_is_multi sshape xis ps. Proof. crush. Qed.
  Lemma geq_point_cs_multi : forall u ps, g_point_cs_multi sshape xcs u ps = single_cs_multi sshape xcs ps. Proof. crush. Qed.
End Eq.
