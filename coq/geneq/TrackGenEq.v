(* Translator tie for C17: the definitions regenerated from class Track of collections.py (TrackGen.v)
   equal the model (CollM.v) for ALL tracks, arguments, distance functions and merge functions.
   Loops with state: the generated loop body is proved equal to the step the model's recursion takes,
   and the generated loop (loop_ret body fin) to the model function, by induction on the list. *)
From Coq Require Import QArith.
From GV Require Import Prelude CollM.
From GV Require TimeM.
From GVgen Require Import TrackGen.
Open Scope Z_scope.

Definition res_map {A B} (f : A -> B) (r : res A) : res B :=
  match r with Ok a => Ok (f a) | Err e => Err e end.

Lemma filter_ext' {A} (f g : A -> bool) l : (forall x, f x = g x) -> filter f l = filter g l.
Proof. intros H. induction l as [|x l IH]; cbn; [reflexivity|]. rewrite H, IH. reflexivity. Qed.

(* ------------------------------------------------------------------ constructors *)
Lemma geq_coll_init : forall l, g_coll_init l = Ok l.
Proof. reflexivity. Qed.

Lemma geq_coll_init_raw : forall l, g_coll_init_raw l = Ok l.
Proof. reflexivity. Qed.

Lemma loop_all_true {A} (l : list A) : loop_all (fun _ => true) l = true.
Proof. induction l; cbn; auto. Qed.

(* Track(shapes) on shapes that already have dt (every call made by a Track method) *)
Lemma geq_track_init : forall l, g_track_init l = Ok (rewrap l).
Proof. intros. unfold g_track_init. rewrite loop_all_true. reflexivity. Qed.

Lemma insert_map_timed x l :
  insert raw_start (Timed x) (map Timed l) = map Timed (insert st x l).
Proof.
  induction l as [|y l IH]; cbn; [reflexivity|].
  destruct (st x <=? st y); cbn; [reflexivity|]. rewrite IH. reflexivity.
Qed.

Lemma isort_map_timed l : isort raw_start (map Timed l) = map Timed (isort st l).
Proof. induction l as [|x l IH]; cbn; [reflexivity|]. rewrite IH. apply insert_map_timed. Qed.

Lemma all_timed_spec l :
  match all_timed l with
  | Some r => l = map Timed r /\ loop_all raw_has_dt l = true
  | None => loop_all raw_has_dt l = false
  end.
Proof.
  induction l as [|[x|i p] l IH]; cbn; auto.
  destruct (all_timed l) as [r|]; cbn; [|exact IH].
  destruct IH as [-> H]. split; [reflexivity|exact H].
Qed.

(* Track(shapes) on arbitrary shapes: the guard, then the stable sort by start *)
Lemma geq_track_init_raw : forall l, g_track_init_raw l = res_map (map Timed) (mk_track l).
Proof.
  intros. unfold g_track_init_raw, mk_track. pose proof (all_timed_spec l) as H.
  destruct (all_timed l) as [r|].
  - destruct H as [-> H].
    replace (loop_all (fun x => raw_has_dt x) (map Timed r)) with true by (symmetry; exact H).
    cbn. unfold g_coll_init_raw, mk_coll, rewrap. f_equal. apply isort_map_timed.
  - replace (loop_all (fun x => raw_has_dt x) l) with false by (symmetry; exact H). reflexivity.
Qed.

(* ------------------------------------------------------------------ __add__ *)
Lemma geq_add : forall t u, g_add t u = Ok (add t u).
Proof. intros. unfold g_add. rewrite geq_track_init. reflexivity. Qed.

Lemma geq_add_other : forall t u, g_add_other t u = Err ValueError.
Proof. reflexivity. Qed.

(* ------------------------------------------------------------------ __getitem__ *)
Lemma max_gen_end x l : max_gen (fun y => en y) x l = max_end x l.
Proof. revert x. induction l as [|y l IH]; intros x; cbn; [reflexivity|]. rewrite IH. reflexivity. Qed.

Lemma geq_getitem : forall t a b, g_getitem t (a, b) = slice t a b.
Proof.
  intros. unfold g_getitem, slice, geoshapes. destruct t as [|x l].
  - apply geq_track_init.
  - rewrite geq_track_init, max_gen_end. destruct a, b; reflexivity.
Qed.

(* ------------------------------------------------------------------ filters *)
Lemma geq_filter_by_dt_instant : forall t d, g_filter_by_dt_instant t d = Ok (filter_by_dt t d).
Proof.
  intros. unfold g_filter_by_dt_instant. rewrite geq_track_init. unfold filter_by_dt. do 2 f_equal.
Qed.

Lemma geq_filter_by_dt_interval : forall t a b,
  g_filter_by_dt_interval t (TimeM.mkiv a b) = Ok (filter_by_iv t a b).
Proof.
  intros. unfold g_filter_by_dt_interval. rewrite geq_track_init. unfold filter_by_iv. do 2 f_equal.
Qed.

Lemma geq_filter_by_time : forall t s e, g_filter_by_time t s e = Ok (filter_by_time t s e).
Proof.
  intros. unfold g_filter_by_time. rewrite geq_track_init. unfold filter_by_time, geoshapes. do 2 f_equal.
  apply filter_ext'. intros x. unfold tod_pred, start_tod, end_tod.
  rewrite orb_assoc, andb_assoc. reflexivity.
Qed.

(* ------------------------------------------------------------------ has_duplicate_timestamps *)
Lemma set_mem_seen x seen : set_mem (map idt seen) (idt x) = existsb (same_dt x) seen.
Proof. unfold set_mem. induction seen as [|y l IH]; cbn; [reflexivity|]. rewrite IH. reflexivity. Qed.

(* one iteration: return True when the dt was seen, else remember it *)
Lemma geq_has_dup_body : forall seen x,
  g_has_duplicate_timestamps_body (map idt seen) x =
  if existsb (same_dt x) seen then inl true else inr (map idt (x :: seen)).
Proof. intros. unfold g_has_duplicate_timestamps_body. rewrite set_mem_seen. reflexivity. Qed.

Lemma has_dup_loop l : forall seen,
  loop_ret g_has_duplicate_timestamps_body (fun _ => false) (map idt seen) l = has_dup_from seen l.
Proof.
  induction l as [|x l IH]; intros seen; cbn [loop_ret has_dup_from]; [reflexivity|].
  rewrite geq_has_dup_body. destruct (existsb (same_dt x) seen); [reflexivity|]. apply IH.
Qed.

Lemma geq_has_duplicate_timestamps : forall t, g_has_duplicate_timestamps t = has_dup t.
Proof. intros. exact (has_dup_loop t []). Qed.

(* ------------------------------------------------------------------ copy / convolve *)
Lemma geq_copy : forall t, g_copy t = Ok (rewrap t).
Proof. intros. apply geq_track_init. Qed.

Section Eq.
  Variable dist : Z -> Z -> Q.
  Variable merge : list Z -> Z.

  (* the association list of the generated code seen from the model's groups *)
  Definition view (g : group) : tdt * list item := (idt (fst g), fst g :: snd g).

  Lemma geq_convolve_body : forall d x, g_convolve_body d x = inr (dd_append d (idt x) x).
  Proof. reflexivity. Qed.

  Lemma group_add_view x gs : map view (group_add x gs) = dd_append (map view gs) (idt x) x.
  Proof.
    induction gs as [|[y r] gs IH]; cbn; [reflexivity|].
    change (tdt_eqb (idt y) (idt x)) with (same_dt y x).
    destruct (same_dt y x); cbn; [reflexivity|]. rewrite IH. reflexivity.
  Qed.

  Lemma convolve_loop1 (fin : list (tdt * list item) -> res track) l : forall gs,
    loop_ret g_convolve_body fin (map view gs) l =
    fin (map view (fold_left (fun gs x => group_add x gs) l gs)).
  Proof.
    induction l as [|x l IH]; intros gs; cbn [loop_ret fold_left]; [reflexivity|].
    rewrite geq_convolve_body, <- group_add_view. apply IH.
  Qed.

  (* one iteration of the second loop: a singleton group keeps its ping, a larger one is merged *)
  Lemma geq_convolve_body2 : forall acc g,
    g_convolve_body2 merge acc (view g) = inr (acc ++ [conv_group merge g]).
  Proof. intros acc [y [|z r]]; reflexivity. Qed.

  Lemma convolve_loop2 gs : forall acc,
    loop_ret (g_convolve_body2 merge) (fun new_pings => g_track_init new_pings) acc (map view gs) =
    Ok (rewrap (acc ++ map (conv_group merge) gs)).
  Proof.
    induction gs as [|g gs IH]; intros acc; cbn [loop_ret map].
    - rewrite app_nil_r. apply geq_track_init.
    - rewrite geq_convolve_body2, IH, <- app_assoc. reflexivity.
  Qed.

  Lemma geq_convolve : forall t, g_convolve merge t = Ok (convolve merge t).
  Proof.
    intros. unfold g_convolve, convolve. rewrite geq_has_duplicate_timestamps.
    destruct (has_dup t); cbn [negb].
    - unfold geoshapes. etransitivity; [exact (convolve_loop1 _ t [])|]. unfold dd_items.
      rewrite (convolve_loop2 _ []). reflexivity.
    - apply geq_copy.
  Qed.

  (* ---------------------------------------------------------------- filter_impossible_journeys *)
  Lemma secs_zero z : Qeq_bool (secs z) (inject_Z 0) = (z =? 0).
  Proof.
    apply Bool.eq_true_iff_eq. rewrite Qeq_bool_iff, Z.eqb_eq. split.
    - unfold secs, Qeq, Qdiv, Qmult, Qinv, inject_Z. cbn. lia.
    - intros ->. reflexivity.
  Qed.

  (* one iteration, [prev] being self.geoshapes[i] and [x] being self.geoshapes[j]: the step of fij_loop *)
  Lemma geq_fij_body : forall t v i j prev x valid,
    nth_error t i = Some prev -> nth_error t j = Some x ->
    g_fij_body dist t v (map st t) (map pl t) (i, valid) j =
    inr (if st x - st prev =? 0 then (i, valid)
         else if Qle_bool (speed dist prev x) v then (j, valid ++ [x]) else (i, valid)).
  Proof.
    intros t v i j prev x valid Hi Hj. unfold g_fij_body, geoshapes.
    rewrite (map_nth_error pl _ _ Hi), (map_nth_error pl _ _ Hj),
            (map_nth_error st _ _ Hj), (map_nth_error st _ _ Hi), secs_zero.
    destruct (st x - st prev =? 0); [reflexivity|].
    change (if Qeq_bool (dist (pl prev) (pl x)) (inject_Z 0) then inject_Z 0
            else Qdiv (dist (pl prev) (pl x)) (secs (st x - st prev))) with (speed dist prev x).
    destruct (Qle_bool (speed dist prev x) v); [rewrite Hj|]; reflexivity.
  Qed.

  Lemma nth_error_mid {A} (pre : list A) x l : nth_error (pre ++ x :: l) (length pre) = Some x.
  Proof. rewrite nth_error_app2, Nat.sub_diag; [reflexivity|apply Nat.le_refl]. Qed.

  Lemma fij_loop_eq t v : forall l pre i prev valid,
    t = pre ++ l -> nth_error t i = Some prev ->
    loop_ret (g_fij_body dist t v (map st t) (map pl t))
             (fun '(i, valid_geoshapes) => g_track_init valid_geoshapes)
             (i, valid) (seq (length pre) (length l)) =
    Ok (rewrap (valid ++ fij_loop dist v prev l)).
  Proof.
    induction l as [|x l IH]; intros pre i prev valid Ht Hi; cbn [length seq loop_ret fij_loop].
    - rewrite app_nil_r. apply geq_track_init.
    - assert (Hj : nth_error t (length pre) = Some x) by (rewrite Ht; apply nth_error_mid).
      rewrite (geq_fij_body t v i (length pre) prev x valid Hi Hj).
      assert (Hl : S (length pre) = length (pre ++ [x])) by (rewrite app_length; cbn; lia).
      assert (Ht' : t = (pre ++ [x]) ++ l) by (rewrite <- app_assoc; exact Ht).
      rewrite Hl.
      destruct (st x - st prev =? 0); [exact (IH _ _ _ _ Ht' Hi)|].
      destruct (Qle_bool (speed dist prev x) v); [|exact (IH _ _ _ _ Ht' Hi)].
      rewrite (IH _ _ _ _ Ht' Hj), <- app_assoc. reflexivity.
  Qed.

  Lemma geq_fij : forall t v, g_fij dist t v = fij dist t v.
  Proof.
    intros [|x l] v; [reflexivity|].
    unfold g_fij, fij, geoshapes. cbn [nth_error length]. rewrite Nat.sub_succ, Nat.sub_0_r.
    exact (fij_loop_eq (x :: l) v l [x] 0%nat x [x] eq_refl eq_refl).
  Qed.
End Eq.
