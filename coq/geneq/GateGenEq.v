(* Translator tie for the space-time gate of _base.py (C05): generated = model, all arguments,
   every instantiation of the abstract spatial predicates. *)
From GV Require Import Prelude TimeM ShapeM.
From GVgen Require Import GateGen.
Open Scope Z_scope.

Section Eq.
  Variable cc : shp -> Z -> bool.
  Variables cs is_ : shp -> shp -> bool.

  Ltac crush :=
    intros; cbv [g_contains_time g_contains_time_dt g_intersects_time g_intersects_time_dt g_contains
                 g_contains_coord g_intersects g_dunder_contains contains_time contains_time_dt
                 intersects_time intersects_time_dt contains contains_coord ShapeM.intersects];
    repeat match goal with
    | |- context [match sdt ?s with _ => _ end] => destruct (sdt s) eqn:?
    | |- context [if ?b then _ else _] => destruct b eqn:?
    end; try reflexivity; try congruence.

  Lemma geq_contains_time : forall s d, g_contains_time s d = contains_time s d.          Proof. crush. Qed.
  Lemma geq_contains_time_dt : forall s t, g_contains_time_dt s t = contains_time_dt s t. Proof. crush. Qed.
  Lemma geq_intersects_time : forall s d, g_intersects_time s d = intersects_time s d.    Proof. crush. Qed.
  Lemma geq_intersects_time_dt : forall s t, g_intersects_time_dt s t = intersects_time_dt s t. Proof. crush. Qed.
  Lemma geq_contains : forall a b, g_contains cs a b = contains cs a b.                   Proof. crush. Qed.
  Lemma geq_contains_coord : forall a c, g_contains_coord cc a c = contains_coord cc a c. Proof. crush. Qed.
  Lemma geq_intersects : forall a b, g_intersects is_ a b = ShapeM.intersects is_ a b.    Proof. crush. Qed.
  Lemma geq_dunder_contains : forall a b, g_dunder_contains cs a b = contains cs a b.     Proof. crush. Qed.
End Eq.
