(* Translator tie for the float model of C08: Coordinate.__init__ regenerated from
   geostructures/coordinates.py over binary64 (tools/gen_coordf.py) equals the hand model
   CoordF.v, for ALL arguments and all fuels.  Same structure as CoordGenEq.v: the generated loop
   CONDITION and loop BODY equal the condition and the step the fuelled model loops iterate;
   hence the generic fuelled loop over the generated pair IS pole_loopf / wrap_loopf, and the
   whole generated constructor, run with a constant fuel for each loop, is CoordF.mkf (None <->
   Err OtherError).  Compiled on every run against the fresh CoordFGen.v.  No axiom is used. *)
From Coq Require Import PrimFloat.
From GV Require Import Prelude CoordF.
From GVgen Require Import CoordFGen.

(* ---- first loop: `while not -90 <= lat <= 90` over the state (lon, lat) *)
Lemma geqf_init_pole_cond : forall s, g_initf_pole_cond s = negb (lat_okf (snd s)).
Proof. intros [lon lat]. reflexivity. Qed.

Lemma geqf_init_pole_step : forall s, g_initf_pole_step s = pole_stepf s.
Proof. intros [lon lat]. reflexivity. Qed.

(* ---- second loop: `while not -180 <= lon <= 180` over the state lon *)
Lemma geqf_init_wrap_cond : forall lon, g_initf_wrap_cond lon = negb (lon_okf lon).
Proof. intros lon. reflexivity. Qed.

Lemma geqf_init_wrap_step : forall lon, g_initf_wrap_step lon = wrap_stepf lon.
Proof. intros lon. reflexivity. Qed.

(* ---- the generic loop over the generated condition/step is the model's fuelled loop *)
Definition res_of_option {A} (o : option A) : res A :=
  match o with Some a => Ok a | None => Err OtherError end.

Lemma geqf_while_pole : forall n s,
  while_fuel g_initf_pole_cond g_initf_pole_step n s = res_of_option (pole_loopf n s).
Proof.
  induction n as [|n IH]; intros s; cbn [while_fuel pole_loopf];
    rewrite geqf_init_pole_cond; destruct (lat_okf (snd s)); cbn [negb]; try reflexivity.
  rewrite geqf_init_pole_step. apply IH.
Qed.

Lemma geqf_while_wrap : forall n s,
  while_fuel g_initf_wrap_cond g_initf_wrap_step n s = res_of_option (wrap_loopf n s).
Proof.
  induction n as [|n IH]; intros s; cbn [while_fuel wrap_loopf];
    rewrite geqf_init_wrap_cond; destruct (lon_okf s); cbn [negb]; try reflexivity.
  rewrite geqf_init_wrap_step. apply IH.
Qed.

(* ---- the constructor: loops in this order under `_bounded`, then 180 -> -180, then the four
   fields (z and m stored as given) *)
Lemma geqf_init : forall fuel lon lat z m bounded,
  g_initf (fun _ => fuel) (fun _ => fuel) lon lat z m bounded =
  match mkf fuel lon lat bounded with
  | Some (a, b) => Ok (a, b, z, m)
  | None => Err OtherError
  end.
Proof.
  intros. unfold g_initf, mkf, mkcf. destruct bounded.
  - rewrite geqf_while_pole.
    destruct (pole_loopf fuel (lon, lat)) as [[lon1 lat1]|]; [|reflexivity]. cbn [res_of_option].
    rewrite geqf_while_wrap.
    destruct (wrap_loopf fuel lon1) as [lon2|]; [|reflexivity]. cbn [res_of_option].
    unfold canon180f. destruct (PrimFloat.eqb lon2 180%float); reflexivity.
  - unfold canon180f. destruct (PrimFloat.eqb lon 180%float); reflexivity.
Qed.
