(* The translator tie for the WEDGE side of GeoRing (structures.py): GeoRing._draw_bounds, GeoRing.bounding_coords
   and BOTH branches of GeoRing.bounds, regenerated from the working tree by tools/gen_wedgebounds.py (no keyword
   arguments: k is the default), equal the hand model - CurveM's sample schedule with the 7-decimal rounding of
   inverse_haversine_radians (BoundsWedgeM.ring_outer_pts_rounded / ring_inner_pts_rounded / ring_pts_rounded) and
   BoundsWedgeM.ring_bounds_rounded - for ALL rings.  The generated accumulating loop
       fold_left (fun '(outer, inner) i => (outer ++ [..i..], inner ++ [..i..])) (schedule k) ([], [])
   is proved equal to the pair of maps over the schedule by induction on the list (fold_two_appends).
   Compiled on every run against the fresh WedgeBoundsGen.v. *)
From GV Require Import Prelude SphereM CurveM BoundsCurveM BoundsWedgeM.
From Coq Require Import Reals.
From GVgen Require Import WedgeBoundsGen.
Open Scope R_scope.

(* a loop whose step appends one element to each of two accumulators computes the two maps *)
Lemma fold_two_appends {A B I : Type} (F : list A * list B -> I -> list A * list B) (f : I -> A) (g : I -> B) :
  (forall a b i, F (a, b) i = (a ++ [f i], b ++ [g i])) ->
  forall l a0 b0, fold_left F l (a0, b0) = (a0 ++ map f l, b0 ++ map g l).
Proof.
  intros HF. induction l as [|x l IH]; intros a0 b0; cbn [fold_left map].
  - rewrite !app_nil_r. reflexivity.
  - rewrite HF, IH, <- !app_assoc. reflexivity.
Qed.

Lemma geq_draw_bounds : forall s,
  g_draw_bounds s = (ring_outer_pts_rounded s (ring_default_k s), ring_inner_pts_rounded s (ring_default_k s)).
Proof.
  intros s. unfold g_draw_bounds. cbv zeta. fold (ring_default_k s).
  rewrite (fold_two_appends _ (ring_outer_pt_rounded s (ring_default_k s)) (ring_inner_pt_rounded s (ring_default_k s))).
  - reflexivity.
  - intros a b i. reflexivity.
Qed.

Lemma geq_bounding_coords : forall s, g_bounding_coords s = ring_pts_rounded s (ring_default_k s).
Proof. intros s. unfold g_bounding_coords. rewrite geq_draw_bounds. reflexivity. Qed.

Lemma geq_ring_bounds : forall s, g_ring_bounds s = ring_bounds_rounded s.
Proof.
  intros s. unfold g_ring_bounds, ring_bounds_rounded. rewrite geq_bounding_coords. reflexivity.
Qed.
