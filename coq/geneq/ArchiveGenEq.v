(* Translator tie for C20: the in-library glue of the shapefile / GeoPandas / KML paths regenerated from
   collections.py, structures.py, multistructures.py, time.py, _base.py and parsers.py (ArchiveGen.v) equals the
   model (ArchiveM.v) for ALL arguments and for every instantiation of the third-party codecs. *)
From Coq Require Import String Ascii.
From GV Require Import Prelude RingM GeoJsonM WktM ArchiveM.
From GV Require TimeM.
From GVgen Require Import ArchiveGen.
Open Scope string_scope.
Open Scope list_scope.
Open Scope Z_scope.

(* ------------------------------------------------------------------ auxiliary facts (no obligations) *)
Remark mk_iv_unfold a b : mk_iv a b = if b <? a then Err ValueError else Ok (a, b).
Proof. unfold mk_iv, TimeM.mk. destruct (b <? a); reflexivity. Qed.

Remark loop_any_existsb {A} (f : A -> bool) l : loop_any f l = existsb f l.
Proof. induction l as [|x l IH]; cbn; [reflexivity|]. rewrite IH. destruct (f x); reflexivity. Qed.

Remark map_ext' {A B} (f g : A -> B) l : (forall x, f x = g x) -> map f l = map g l.
Proof. intros H. induction l as [|x l IH]; cbn; [reflexivity|]. rewrite H, IH. reflexivity. Qed.

Remark filter_ext' {A} (f g : A -> bool) l : (forall x, f x = g x) -> filter f l = filter g l.
Proof. intros H. induction l as [|x l IH]; cbn; [reflexivity|]. rewrite H, IH. reflexivity. Qed.

(* ================================================================== time.py *)
Lemma geq_to_fastkml : forall d, g_to_fastkml d = to_fastkml_time d.
Proof. reflexivity. Qed.

Lemma geq_from_fastkml_stamp : forall t, g_from_fastkml_stamp t = from_fastkml_time (KStamp t).
Proof. reflexivity. Qed.

Lemma geq_from_fastkml_span : forall a b, g_from_fastkml_span (a, b) = from_fastkml_time (KSpan a b).
Proof. intros. unfold g_from_fastkml_span. cbn [fst snd from_fastkml_time]. rewrite mk_iv_unfold. destruct (b <? a); reflexivity. Qed.

(* ================================================================== to_shapefile *)
Lemma geq_convert_dt : forall v, g_convert_dt v = convert_dt v.
Proof. intros []; reflexivity. Qed.

(* None is no datetime: _convert_dt(None) is None, which is why a missing value goes through option_map *)
Lemma geq_convert_dt_none : forall u, g_convert_dt_none u = u.
Proof. reflexivity. Qed.

(* the isinstance cascade: the fold over the four lists is ArchiveM.group_shapes, and the `else: raise` never fires *)
Lemma geq_group_step : forall p m l s x,
  g_group_step (p, m, l, s) x =
  Ok (let g := group_step (mkgroups p m l s) x in (g_points g, g_multipoints g, g_lines g, g_shapes g)).
Proof.
  intros. unfold g_group_step, group_step, isinst_GeoPoint, isinst_MultiGeoPoint, isinst_LineLikeMixin,
    isinst_PolygonLikeMixin. destruct (sgeom x); reflexivity.
Qed.

Lemma geq_group_shapes : forall l,
  g_group_shapes l =
  Ok (let g := group_shapes l in (g_points g, g_multipoints g, g_lines g, g_shapes g)).
Proof.
  intros l. unfold g_group_shapes, group_shapes.
  change ([], [], [], []) with (let g := mkgroups [] [] [] [] in (g_points g, g_multipoints g, g_lines g, g_shapes g)).
  generalize (mkgroups [] [] [] []). induction l as [|x l IH]; intros g; cbn [loop_state fold_left].
  - reflexivity.
  - destruct g as [p m ln s]. cbn [g_points g_multipoints g_lines g_shapes]. rewrite geq_group_step.
    cbv zeta. rewrite <- IH. destruct (group_step (mkgroups p m ln s) x); reflexivity.
Qed.

(* the layers are written points, multipoints, lines, shapes *)
Lemma geq_layers : forall g,
  concat (map snd (g_layers (g_points g) (g_multipoints g) (g_lines g) (g_shapes g))) = archive_order g.
Proof. intros. unfold g_layers, archive_order. cbn. rewrite app_nil_r. reflexivity. Qed.

(* the issubclass cascade on type(value), then 'ID' : 'N' *)
Lemma geq_field_decl : forall k v, g_field_decl k (pytype_of v) = (k, ftype_of v).
Proof. intros k []; reflexivity. Qed.

Lemma geq_id_field : g_id_field = ("ID", FN).
Proof. reflexivity. Qed.

(* ================================================================== from_shapefile *)
Lemma geq_shp_get_dt : forall fs fe rec, g_shp_get_dt fs fe rec = shp_get_dt fs fe rec.
Proof.
  intros. unfold g_shp_get_dt, shp_get_dt, conv, truthy_or_none.
  destruct (jget fs rec) as [[| [] | n | n | [|c s] | t | t | [|x l] | [|x l]]|];
  destruct (jget fe rec) as [[| [] | n' | n' | [|c' s'] | t' | t' | [|x' l'] | [|x' l']]|];
  cbn [falsy negb fromisoformat is_some_ andb orb opt_or dt_of_instant mk_iv_opt option_eqb];
  try reflexivity;
  repeat match goal with |- context [?a =? 0] => destruct (a =? 0) end;
  cbn [falsy negb fromisoformat is_some_ andb orb opt_or dt_of_instant mk_iv_opt option_eqb];
  try reflexivity.
  rewrite mk_iv_unfold. destruct (t =? t') eqn:E.
  - apply Z.eqb_eq in E. subst. reflexivity.
  - destruct (t' <? t); reflexivity.
Qed.
