(* Translator tie for C20: the in-library glue of the shapefile / GeoPandas / KML paths regenerated from
   collections.py, structures.py, multistructures.py, time.py, _base.py and parsers.py (ArchiveGen.v) equals the
   model (ArchiveM.v) for ALL arguments and for every instantiation of the third-party codecs. *)
From Coq Require Import String Ascii.
From GV Require Import Prelude RingM GeoJsonM WktM ArchiveM.
From GV Require TimeM.
From GVgen Require Import ArchiveGen.
Open Scope string_scope.
Open Scope list_scope.
Open Scope Z_scope.

(* ------------------------------------------------------------------ auxiliary facts (no obligations) *)
Remark mk_iv_unfold a b : mk_iv a b = if b <? a then Err ValueError else Ok (a, b).
Proof. unfold mk_iv, TimeM.mk. destruct (b <? a); reflexivity. Qed.

Remark loop_any_existsb {A} (f : A -> bool) l : loop_any f l = existsb f l.
Proof. induction l as [|x l IH]; cbn; [reflexivity|]. rewrite IH. destruct (f x); reflexivity. Qed.

Remark map_ext' {A B} (f g : A -> B) l : (forall x, f x = g x) -> map f l = map g l.
Proof. intros H. induction l as [|x l IH]; cbn; [reflexivity|]. rewrite H, IH. reflexivity. Qed.

Remark filter_ext' {A} (f g : A -> bool) l : (forall x, f x = g x) -> filter f l = filter g l.
Proof. intros H. induction l as [|x l IH]; cbn; [reflexivity|]. rewrite H, IH. reflexivity. Qed.

(* ================================================================== time.py *)
Lemma geq_to_fastkml : forall d, g_to_fastkml d = to_fastkml_time d.
Proof. reflexivity. Qed.

Lemma geq_from_fastkml_stamp : forall t, g_from_fastkml_stamp t = from_fastkml_time (KStamp t).
Proof. reflexivity. Qed.

Lemma geq_from_fastkml_span : forall a b, g_from_fastkml_span (a, b) = from_fastkml_time (KSpan a b).
Proof. intros. unfold g_from_fastkml_span. cbn [fst snd from_fastkml_time]. rewrite mk_iv_unfold. destruct (b <? a); reflexivity. Qed.

(* ================================================================== to_shapefile *)
Lemma geq_convert_dt : forall v, g_convert_dt v = convert_dt v.
Proof. intros []; reflexivity. Qed.

(* None is no datetime: _convert_dt(None) is None, which is why a missing value goes through option_map *)
Lemma geq_convert_dt_none : forall u, g_convert_dt_none u = u.
Proof. reflexivity. Qed.

(* the isinstance cascade: the fold over the four lists is ArchiveM.group_shapes, and the `else: raise` never fires *)
Lemma geq_group_step : forall p m l s x,
  g_group_step (p, m, l, s) x =
  Ok (let g := group_step (mkgroups p m l s) x in (g_points g, g_multipoints g, g_lines g, g_shapes g)).
Proof.
  intros. unfold g_group_step, group_step, isinst_GeoPoint, isinst_MultiGeoPoint, isinst_LineLikeMixin,
    isinst_PolygonLikeMixin. destruct (sgeom x); reflexivity.
Qed.

Lemma geq_group_shapes : forall l,
  g_group_shapes l =
  Ok (let g := group_shapes l in (g_points g, g_multipoints g, g_lines g, g_shapes g)).
Proof.
  intros l. unfold g_group_shapes, group_shapes.
  change ([], [], [], []) with (let g := mkgroups [] [] [] [] in (g_points g, g_multipoints g, g_lines g, g_shapes g)).
  generalize (mkgroups [] [] [] []). induction l as [|x l IH]; intros g; cbn [loop_state fold_left].
  - reflexivity.
  - destruct g as [p m ln s]. cbn [g_points g_multipoints g_lines g_shapes]. rewrite geq_group_step.
    cbv zeta. rewrite <- IH. destruct (group_step (mkgroups p m ln s) x); reflexivity.
Qed.

(* the layers are written points, multipoints, lines, shapes *)
Lemma geq_layers : forall g,
  concat (map snd (g_layers (g_points g) (g_multipoints g) (g_lines g) (g_shapes g))) = archive_order g.
Proof. intros. unfold g_layers, archive_order. cbn. rewrite app_nil_r. reflexivity. Qed.

(* the issubclass cascade on type(value), then 'ID' : 'N' *)
Lemma geq_field_decl : forall k v, g_field_decl k (pytype_of v) = (k, ftype_of v).
Proof. intros k []; reflexivity. Qed.

Lemma geq_id_field : g_id_field = ("ID", FN).
Proof. reflexivity. Qed.

(* ================================================================== from_shapefile *)
Lemma geq_shp_get_dt : forall fs fe rec, g_shp_get_dt fs fe rec = shp_get_dt fs fe rec.
Proof.
  intros. unfold g_shp_get_dt, shp_get_dt, conv, truthy_or_none.
  destruct (jget fs rec) as [[| [] | n | n | [|c s] | t | t | [|x l] | [|x l]]|];
  destruct (jget fe rec) as [[| [] | n' | n' | [|c' s'] | t' | t' | [|x' l'] | [|x' l']]|];
  cbn [falsy negb fromisoformat is_some_ andb orb opt_or dt_of_instant mk_iv_opt option_eqb];
  try reflexivity;
  repeat match goal with |- context [?a =? 0] => destruct (a =? 0) end;
  cbn [falsy negb fromisoformat is_some_ andb orb opt_or dt_of_instant mk_iv_opt option_eqb];
  try reflexivity.
  rewrite mk_iv_unfold. destruct (t =? t') eqn:E.
  - apply Z.eqb_eq in E. subst. reflexivity.
  - destruct (t' <? t); reflexivity.
Qed.

(* ================================================================== has_z / to_pyshp of every class *)
Remark existsb_ext' {A} (f g : A -> bool) l : (forall x, f x = g x) -> existsb f l = existsb g l.
Proof. intros H. induction l as [|x l IH]; cbn; [reflexivity|]. rewrite H, IH. reflexivity. Qed.

Lemma geq_has_z_GeoPoint : forall c, g_has_z_GeoPoint c = has_z (GPoint c).
Proof. reflexivity. Qed.

Lemma geq_has_z_GeoLineString : forall vs, g_has_z_GeoLineString vs = has_z (GLine vs).
Proof. intros. unfold g_has_z_GeoLineString. rewrite loop_any_existsb. reflexivity. Qed.

Lemma geq_has_z_GeoPolygon : forall p, g_has_z_GeoPolygon p = has_z (GPoly p).
Proof. intros. unfold g_has_z_GeoPolygon. rewrite loop_any_existsb. reflexivity. Qed.

Lemma geq_has_z_MultiGeoPoint : forall cs, g_has_z_MultiGeoPoint cs = has_z (GMPoint cs).
Proof. intros. unfold g_has_z_MultiGeoPoint. rewrite loop_any_existsb. reflexivity. Qed.

Lemma geq_has_z_MultiGeoLineString : forall ls, g_has_z_MultiGeoLineString ls = has_z (GMLine ls).
Proof.
  intros. unfold g_has_z_MultiGeoLineString. rewrite loop_any_existsb. cbn [has_z].
  apply existsb_ext'. intros x. apply (geq_has_z_GeoLineString x).
Qed.

Lemma geq_has_z_MultiGeoPolygon : forall ps, g_has_z_MultiGeoPolygon ps = has_z (GMPoly ps).
Proof.
  intros. unfold g_has_z_MultiGeoPolygon. rewrite loop_any_existsb. cbn [has_z].
  apply existsb_ext'. intros x. apply (geq_has_z_GeoPolygon x).
Qed.

Remark if_mkps (b : bool) k p z : (if b then mkps k p (Some z) else mkps k p None) = mkps k p (if b then Some z else None).
Proof. destruct b; reflexivity. Qed.

Remark flat_map_map_rings (ps : list polygon) :
  flat_map (fun p => map (fun r => rev r) (linear_rings p)) ps = map (@rev coord) (flat_map linear_rings ps).
Proof. induction ps as [|p ps IH]; cbn [flat_map map]; [reflexivity|]. rewrite map_app, IH. reflexivity. Qed.

Section ToPyshp.
  Variable orc : oracle.

  Lemma geq_to_pyshp_GeoPoint : forall c, g_to_pyshp_GeoPoint c = to_pyshp orc (GPoint c).
  Proof. intros. unfold g_to_pyshp_GeoPoint, writer_pointz, writer_point. rewrite if_mkps, geq_has_z_GeoPoint. reflexivity. Qed.

  Lemma geq_to_pyshp_GeoLineString : forall vs, g_to_pyshp_GeoLineString vs = to_pyshp orc (GLine vs).
  Proof. intros. unfold g_to_pyshp_GeoLineString, writer_linez, writer_line. cbv zeta. rewrite if_mkps, geq_has_z_GeoLineString. reflexivity. Qed.

  Lemma geq_to_pyshp_MultiGeoPoint : forall cs, g_to_pyshp_MultiGeoPoint cs = to_pyshp orc (GMPoint cs).
  Proof.
    intros. unfold g_to_pyshp_MultiGeoPoint, writer_multipointz, writer_multipoint. cbv zeta.
    rewrite if_mkps, geq_has_z_MultiGeoPoint. unfold to_pyshp, zs_of. cbn [esri_rings flat_map map]. rewrite app_nil_r. reflexivity.
  Qed.

  Lemma geq_to_pyshp_MultiGeoLineString : forall ls, g_to_pyshp_MultiGeoLineString ls = to_pyshp orc (GMLine ls).
  Proof. intros. unfold g_to_pyshp_MultiGeoLineString, writer_linez, writer_line. cbv zeta. rewrite if_mkps, geq_has_z_MultiGeoLineString. reflexivity. Qed.

  Lemma geq_to_pyshp_MultiGeoPolygon : forall ps, g_to_pyshp_MultiGeoPolygon ps = to_pyshp orc (GMPoly ps).
  Proof.
    intros. unfold g_to_pyshp_MultiGeoPolygon, writer_polyz, writer_poly. cbv zeta.
    rewrite if_mkps, geq_has_z_MultiGeoPolygon, flat_map_map_rings. reflexivity.
  Qed.

  (* PolygonBase.to_pyshp serves GeoPolygon, GeoBox, GeoCircle / GeoEllipse, GeoRing *)
  Lemma geq_to_pyshp_PolygonBase : forall g,
    match g with GPoly _ | GBox _ _ _ | GRound _ _ | GRingFull _ _ | GWedge _ _ => True | _ => False end ->
    g_to_pyshp_PolygonBase orc g = to_pyshp orc g.
  Proof.
    intros g Hg. unfold g_to_pyshp_PolygonBase, writer_polyz, writer_poly. cbv zeta. rewrite if_mkps.
    destruct g; try contradiction; try reflexivity.
    unfold has_z_polylike. rewrite geq_has_z_GeoPolygon. reflexivity.
  Qed.

  (* shape.to_pyshp(writer): the method each class inherits (class table of the current tree) *)
  Lemma geq_dispatch_to_pyshp : forall g, dispatch_to_pyshp orc g = to_pyshp orc g.
  Proof.
    intros g. destruct g; cbn [dispatch_to_pyshp];
      first [ apply geq_to_pyshp_GeoPoint | apply geq_to_pyshp_GeoLineString | apply geq_to_pyshp_MultiGeoPoint
            | apply geq_to_pyshp_MultiGeoLineString | apply geq_to_pyshp_MultiGeoPolygon
            | apply geq_to_pyshp_PolygonBase; exact I ].
  Qed.
End ToPyshp.

(* ================================================================== from_pyshp of every class *)
Definition with_shape (r : res geom) (dt : option (Z * Z)) (props : dict) : res shape :=
  match r with Ok g => Ok (mkshape g dt props) | Err e => Err e end.

Remark pop_zpop z : pop_or_none z = zpop z.
Proof. destruct z as [[|v t]|]; reflexivity. Qed.

Remark mapS_attach l : forall z,
  mapS (fun x z => let (v, z) := pop_or_none z in (mk_coord x v, z)) l z = attach l z.
Proof.
  induction l as [|p l IH]; intros z; cbn [mapS attach]; [reflexivity|].
  rewrite pop_zpop. destruct (zpop z) as [v z1]. rewrite IH. destruct (attach l z1); reflexivity.
Qed.

Remark mapS_ext {A B S} (f g : A -> S -> B * S) l : (forall a s, f a s = g a s) -> forall s, mapS f l s = mapS g l s.
Proof. intros H. induction l as [|a l IH]; intros s; cbn [mapS]; [reflexivity|]. rewrite H. destruct (g a s). rewrite IH. reflexivity. Qed.

Remark mapS_attach2 ls : forall z,
  mapS (fun l z => let (r, z) := mapS (fun x z => let (v, z) := pop_or_none z in (mk_coord x v, z)) l z in (r, z)) ls z
  = attach2 ls z.
Proof.
  induction ls as [|l ls IH]; intros z; cbn [mapS attach2]; [reflexivity|].
  rewrite mapS_attach. destruct (attach l z) as [r z1]. rewrite IH. destruct (attach2 ls z1); reflexivity.
Qed.

Remark mapM_eta {A B} (f : A -> res B) l :
  mapM (fun x => match f x with Ok r => Ok r | Err e => Err e end) l = mapM f l.
Proof. induction l as [|a l IH]; cbn [mapM]; [reflexivity|]. rewrite IH. destruct (f a); reflexivity. Qed.

Remark mapSM_ext {A B S} (f g : A -> S -> res (B * S)) l :
  (forall a s, f a s = g a s) -> forall s, mapSM f l s = mapSM g l s.
Proof.
  intros H. induction l as [|a l IH]; intros s; cbn [mapSM]; [reflexivity|].
  rewrite H. destruct (g a s) as [[b s1]|]; [|reflexivity]. rewrite IH. reflexivity.
Qed.

Remark len_eq1 {A} (x y : A) l : (Z.of_nat (length (x :: y :: l)) =? 1) = false.
Proof. apply Z.eqb_neq. cbn [length]. lia. Qed.
Remark len_gt1 {A} (x y : A) l : (1 <? Z.of_nat (length (x :: y :: l))) = true.
Proof. apply Z.ltb_lt. cbn [length]. lia. Qed.

Section FromPyshp.
  Variable half : Z.

  Lemma geq_from_pyshp_GeoPoint : forall p z dt props,
    g_from_pyshp_GeoPoint half (GiPoint p, z) dt props = with_shape (from_pyshp half (GiPoint p) z) dt props.
  Proof. intros p [[|v t]|] dt props; reflexivity. Qed.

  Lemma geq_from_pyshp_GeoLineString : forall l z dt props,
    g_from_pyshp_GeoLineString half (GiLineString l, z) dt props = with_shape (from_pyshp half (GiLineString l) z) dt props.
  Proof.
    intros. unfold g_from_pyshp_GeoLineString. cbn [fst snd gi_coords1 from_pyshp with_shape]. cbv zeta.
    rewrite mapS_attach. destruct (attach l z); reflexivity.
  Qed.

  Lemma geq_from_pyshp_MultiGeoPoint : forall l z dt props,
    g_from_pyshp_MultiGeoPoint half (GiMultiPoint l, z) dt props = with_shape (from_pyshp half (GiMultiPoint l) z) dt props.
  Proof.
    intros. unfold g_from_pyshp_MultiGeoPoint. cbn [fst snd gi_coords1 from_pyshp with_shape]. cbv zeta.
    rewrite mapS_attach. destruct (attach l z); reflexivity.
  Qed.

  Lemma geq_from_pyshp_MultiGeoLineString : forall ls z dt props,
    g_from_pyshp_MultiGeoLineString half (GiMultiLineString ls, z) dt props
    = with_shape (from_pyshp half (GiMultiLineString ls) z) dt props.
  Proof.
    intros. unfold g_from_pyshp_MultiGeoLineString. cbn [fst snd gi_coords2 from_pyshp with_shape]. cbv zeta.
    rewrite mapS_attach2. destruct (attach2 ls z); reflexivity.
  Qed.

  Lemma geq_from_pyshp_GeoPolygon : forall rs z dt props,
    g_from_pyshp_GeoPolygon half (GiPolygon rs, z) dt props = with_shape (from_pyshp half (GiPolygon rs) z) dt props.
  Proof.
    intros. unfold g_from_pyshp_GeoPolygon. cbn [fst snd gi_coords2 from_pyshp with_shape]. cbv zeta.
    rewrite mapS_attach2. destruct (attach2 rs z) as [rings z1]. cbn [fst].
    destruct rings as [|shell [|h hs]].
    - reflexivity.
    - cbn. unfold poly_shape, poly_ctor. destruct (ctor_ring half shell); reflexivity.
    - rewrite len_eq1, mapM_eta. cbn [tl assemble_poly].
      destruct (mapM (ctor_ring half) (h :: hs)) as [holes|]; [|reflexivity].
      unfold poly_shape, poly_ctor. destruct (ctor_ring half shell); reflexivity.
  Qed.

  Definition asm_step (p : list (list xy)) (z : zstate) : res (polygon * zstate) :=
    let (rs, z1) := attach2 p z in
    match assemble_poly half rs with Ok q => Ok (q, z1) | Err e => Err e end.

  Remark mapSM_asm ps : forall z,
    mapSM asm_step ps z =
    match mapM (assemble_poly half) (fst (attach3 ps z)) with
    | Ok l => Ok (l, snd (attach3 ps z)) | Err e => Err e end.
  Proof.
    induction ps as [|p ps IH]; intros z; [reflexivity|].
    change (mapSM asm_step (p :: ps) z) with
      (match asm_step p z with
       | Err e => Err e
       | Ok (b, s1) => match mapSM asm_step ps s1 with Err e => Err e | Ok (bs, s2) => Ok (b :: bs, s2) end
       end).
    cbn [attach3]. unfold asm_step at 1. destruct (attach2 p z) as [rs z1].
    destruct (assemble_poly half rs) as [q|] eqn:E; cbv beta iota.
    - rewrite IH. destruct (attach3 ps z1) as [pss z2]. cbn [fst snd mapM]. rewrite E.
      destruct (mapM (assemble_poly half) pss); reflexivity.
    - destruct (attach3 ps z1) as [pss z2]. cbn [fst snd mapM]. rewrite E. reflexivity.
  Qed.

  Lemma geq_from_pyshp_MultiGeoPolygon : forall ps z dt props,
    g_from_pyshp_MultiGeoPolygon half (GiMultiPolygon ps, z) dt props
    = with_shape (from_pyshp half (GiMultiPolygon ps) z) dt props.
  Proof.
    intros. unfold g_from_pyshp_MultiGeoPolygon. cbn [fst snd gi_coords3 from_pyshp with_shape]. cbv zeta.
    rewrite mapSM_ext with (g := asm_step).
    - rewrite mapSM_asm. destruct (mapM (assemble_poly half) (fst (attach3 ps z))); reflexivity.
    - intros p s. unfold asm_step. rewrite mapS_attach2. destruct (attach2 p s) as [rings z1].
      destruct rings as [|shell [|h hs]].
      + reflexivity.
      + cbn. unfold poly_ctor. destruct (ctor_ring half shell); reflexivity.
      + rewrite len_gt1, mapM_eta. cbn [tl assemble_poly].
        destruct (mapM (ctor_ring half) (h :: hs)) as [holes|]; [|reflexivity].
        unfold poly_ctor. destruct (ctor_ring half shell); reflexivity.
  Qed.
End FromPyshp.

(* ================================================================== from_shapefile: one (shape, record) pair *)
Remark map_pair_id {A B} (l : list (A * B)) : map (fun '(k, v) => (k, v)) l = l.
Proof. induction l as [|[k v] l IH]; cbn; [reflexivity|]. rewrite IH. reflexivity. Qed.

(* conv_map dispatch on the geo-interface type, _get_dt, the property filter, <Class>.from_pyshp *)
Lemma geq_shp_read_shape : forall half g z rec,
  g_shp_read_shape half "datetime_s" "datetime_e" (g, z) rec = shp_read_shape half g z rec.
Proof.
  intros. unfold g_shp_read_shape, shp_read_shape. cbv zeta. rewrite geq_shp_get_dt, map_pair_id.
  rewrite filter_ext' with (g := fun kv => negb (is_time_col "datetime_s" "datetime_e" (fst kv)))
    by (intros [k v]; reflexivity).
  destruct g; cbn [fst gi_type];
    (match goal with |- context [convmap_has ?m ?k] => let b := eval vm_compute in (convmap_has m k) in
       change (convmap_has m k) with b end);
    (match goal with |- context [convmap_get ?m ?k] => let b := eval vm_compute in (convmap_get m k) in
       change (convmap_get m k) with b end);
    cbn [negb dispatch_from_pyshp];
    destruct (shp_get_dt "datetime_s" "datetime_e" rec) as [dt|]; try reflexivity;
    first [ rewrite geq_from_pyshp_GeoPoint | rewrite geq_from_pyshp_GeoLineString | rewrite geq_from_pyshp_GeoPolygon
          | rewrite geq_from_pyshp_MultiGeoPoint | rewrite geq_from_pyshp_MultiGeoLineString
          | rewrite geq_from_pyshp_MultiGeoPolygon ];
    unfold with_shape;
    match goal with |- context [from_pyshp ?h ?g ?z] => destruct (from_pyshp h g z) end; reflexivity.
Qed.

(* ================================================================== to_shapefile: the record and shape of one member *)
Section ShpMember.
  Variable dbf_name : string -> string.
  Variable dbf_cell : ftype -> option json -> json.
  Variable orc : oracle.

  (* typemap = {key: type(value)}; the declared fields are those the issubclass cascade gives; the record is
     ArchiveM.shp_record for any typing function that agrees with the cascade on the keys *)
  Lemma geq_shp_member : forall (d : dict) (ty : string -> ftype) s idx,
    (forall k v, In (k, v) d -> ty k = ftype_of v) ->
    let typemap := map (fun kv => (fst kv, pytype_of (snd kv))) d in
    g_shp_member dbf_name dbf_cell orc (g_declared_fields typemap) typemap idx s
    = (shp_record dbf_name dbf_cell (map fst d) ty s idx, to_pyshp orc (sgeom s)).
  Proof.
    intros d ty s idx Hty typemap. unfold g_shp_member, shp_record, writer_record. cbv zeta.
    rewrite geq_dispatch_to_pyshp. f_equal. f_equal. subst typemap.
    induction d as [|[k v] d IH]; [reflexivity|].
    cbn [map combine fst snd g_declared_fields]. rewrite geq_field_decl. cbn [fst snd].
    rewrite (Hty k v (or_introl eq_refl)).
    f_equal.
    - f_equal. f_equal. destruct (jget k (properties s)); cbn [option_map]; [rewrite geq_convert_dt|]; reflexivity.
    - apply IH. intros k' v' Hin. apply Hty. right. exact Hin.
  Qed.
End ShpMember.
