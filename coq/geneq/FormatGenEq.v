(* Translator tie for C19: round_half_up (utils/functions.py) and the text/grid formats of
   geostructures/coordinates.py, regenerated from the working tree, equal the hand model FormatM.v.
   to_dms / to_qdms (with both specialisations of the nested zero_pad) / from_dms / the projection glue:
   for ALL arguments.  from_qdms: on the whole domain of the model (texts of the exact width whose
   fields are digits; elsewhere FormatM.qdms_value is None = "outside the model", while the code - and
   the generated term - also accepts e.g. longer seconds fields).  MGRS: FormatM has no MGRS function
   (no theorem is claimed about it), so the two glue lemmas state the argument placement directly.
   Compiled on every run against the fresh FormatGen.v. *)
From Coq Require Import QArith Qround Qabs String Ascii.
From GV Require Import Prelude CoordM FormatM.
From GVgen Require Import FormatGen.
Open Scope Z_scope.

(* ------------------------------------------------------------------ round_half_up *)
Lemma geq_round_half_up : forall v p, -12 <= p -> g_round_half_up v p = rhu v p.
Proof.
  intros v p Hp. unfold g_round_half_up, py_round, rhu, rhu_k, pow10.
  destruct (Z.eq_dec (p + 12) 0) as [E|E].
  - rewrite E. reflexivity.
  - destruct (0 <=? - (p + 12)) eqn:L; [lia|]. rewrite Z.opp_involutive. reflexivity.
Qed.

(* ------------------------------------------------------------------ to_dms *)
(* the Python tuple of one axis: (degrees, minutes, seconds as dec 5, hemisphere letter) *)
Definition dms_tuple (letters : ascii * ascii) (t : dms) : Z * Z * Z * ascii :=
  (dg t, mn t, s5 t, if pos t then fst letters else snd letters).

Lemma geq_to_dms_convert : forall dd,
  g_to_dms_convert dd = (dg (to_dms_axis dd), mn (to_dms_axis dd), s5 (to_dms_axis dd)).
Proof. intros. cbv [g_to_dms_convert divmod_q divmod_z to_dms_axis dms_of_x dg mn s5]. reflexivity. Qed.

Lemma geq_to_dms : forall c, g_to_dms c = (dms_tuple EW (fst (to_dms c)), dms_tuple NS (snd (to_dms c))).
Proof.
  intros. unfold g_to_dms. rewrite !geq_to_dms_convert.
  cbv [to_dms dms_tuple fst snd EW NS to_dms_axis dms_of_x dg mn s5 pos]. reflexivity.
Qed.

(* ------------------------------------------------------------------ zero_pad *)
Definition nodot (s : string) : Prop := str_remove "." s = s.

Lemma digit_not_dot : forall d, 0 <= d < 10 -> Ascii.eqb (digit d) "." = false.
Proof.
  intros d H.
  assert (d = 0 \/ d = 1 \/ d = 2 \/ d = 3 \/ d = 4 \/ d = 5 \/ d = 6 \/ d = 7 \/ d = 8 \/ d = 9) as C by lia.
  repeat (destruct C as [->|C]; [reflexivity|]). subst. reflexivity.
Qed.

Lemma nodot_cons_digit : forall d s, 0 <= d < 10 -> nodot s -> nodot (String (digit d) s).
Proof. intros d s H N. unfold nodot in *. cbn [str_remove]. rewrite digit_not_dot, N by exact H. reflexivity. Qed.

Lemma nodot_digits_aux : forall fuel n acc, nodot acc -> nodot (digits_aux fuel n acc).
Proof.
  induction fuel as [|f IH]; intros n acc N; cbn [digits_aux].
  - apply nodot_cons_digit; [lia|exact N].
  - destruct (n <? 10); [apply nodot_cons_digit; [lia|exact N]|].
    apply IH. apply nodot_cons_digit; [lia|exact N].
Qed.

Lemma nodot_digits : forall n, nodot (digits n).
Proof. intros. apply nodot_digits_aux. reflexivity. Qed.

Lemma nodot_two : forall n, 0 <= n < 100 -> nodot (two n).
Proof. intros n H. unfold two. apply nodot_cons_digit; [lia|]. apply nodot_cons_digit; [lia|reflexivity]. Qed.

Lemma str_remove_app : forall c a b, str_remove c (a ++ b) = (str_remove c a ++ str_remove c b)%string.
Proof.
  induction a as [|x a IH]; intros b; cbn [append str_remove]; [reflexivity|].
  rewrite IH. destruct (Ascii.eqb x c); reflexivity.
Qed.

Lemma str_rep_zeros : forall k, str_rep (String "0" EmptyString) k = zeros k.
Proof. induction k as [|k IH]; cbn [str_rep zeros append]; [|rewrite IH]; reflexivity. Qed.

(* '0' * (length - len(s)) + s *)
Lemma geq_pad : forall (L : nat) s,
  (str_mul (String "0" EmptyString) (Z.of_nat L - str_len s) ++ s)%string = pad L s.
Proof.
  intros. unfold str_mul, str_len, pad. rewrite str_rep_zeros. f_equal. f_equal. lia.
Qed.

(* zero_pad(num, length) for an int num:  str(num) has no '.' *)
Lemma geq_to_qdms_zero_pad_int : forall n (L : nat), g_to_qdms_zero_pad_int n (Z.of_nat L) = pad L (digits n).
Proof. intros. unfold g_to_qdms_zero_pad_int. rewrite (nodot_digits n). apply geq_pad. Qed.

(* zero_pad(num, length) for the float num = h / 100:  f'{num:.2f}' without its '.' *)
Lemma geq_to_qdms_zero_pad_float : forall h (L : nat), g_to_qdms_zero_pad_float h (Z.of_nat L) = pad L (str2_nodot h).
Proof.
  intros. unfold g_to_qdms_zero_pad_float, str2, str2_nodot.
  rewrite str_remove_app, (nodot_digits (h / 100)). cbn [append str_remove].
  replace (Ascii.eqb "." ".") with true by reflexivity.
  rewrite (nodot_two (h mod 100)) by lia. apply geq_pad.
Qed.

(* ------------------------------------------------------------------ to_qdms *)
(* one axis: f'{t[3]}{"".join([zero_pad(abs(t[0]), w), zero_pad(t[1], 2), zero_pad(round_half_up(t[2], 2), 4)])}' *)
Lemma geq_to_qdms_lon_axis : forall t,
  (String (snd (dms_tuple EW t)) EmptyString ++
   String.concat "" [g_to_qdms_zero_pad_int (Z.abs (fst (fst (fst (dms_tuple EW t))))) 3;
                     g_to_qdms_zero_pad_int (snd (fst (fst (dms_tuple EW t)))) 2;
                     g_to_qdms_zero_pad_float (rhu_k (dec_q 5 (snd (fst (dms_tuple EW t)))) 2) 4])%string
  = qdms_axis 3 EW t.
Proof.
  intros.
  rewrite (geq_to_qdms_zero_pad_int _ 3%nat : g_to_qdms_zero_pad_int _ 3 = _).
  rewrite (geq_to_qdms_zero_pad_int _ 2%nat : g_to_qdms_zero_pad_int _ 2 = _).
  rewrite (geq_to_qdms_zero_pad_float _ 4%nat : g_to_qdms_zero_pad_float _ 4 = _).
  reflexivity.
Qed.

Lemma geq_to_qdms_lat_axis : forall t,
  (String (snd (dms_tuple NS t)) EmptyString ++
   String.concat "" [g_to_qdms_zero_pad_int (Z.abs (fst (fst (fst (dms_tuple NS t))))) 2;
                     g_to_qdms_zero_pad_int (snd (fst (fst (dms_tuple NS t)))) 2;
                     g_to_qdms_zero_pad_float (rhu_k (dec_q 5 (snd (fst (dms_tuple NS t)))) 2) 4])%string
  = qdms_axis 2 NS t.
Proof.
  intros.
  rewrite !(geq_to_qdms_zero_pad_int _ 2%nat : g_to_qdms_zero_pad_int _ 2 = _).
  rewrite (geq_to_qdms_zero_pad_float _ 4%nat : g_to_qdms_zero_pad_float _ 4 = _).
  reflexivity.
Qed.

Lemma geq_to_qdms : forall c reverse, g_to_qdms c reverse = to_qdms c reverse.
Proof.
  intros. unfold g_to_qdms. rewrite geq_to_dms. cbv beta iota zeta.
  rewrite geq_to_qdms_lon_axis, geq_to_qdms_lat_axis.
  unfold to_qdms, to_dms. cbn [fst snd]. destruct reverse; reflexivity.
Qed.

(* ------------------------------------------------------------------ from_dms *)
Lemma geq_from_dms_convert : forall d m s h,
  g_from_dms_convert (d, m, s, h) = dms_value d m s (negb (Ascii.eqb h "S" || Ascii.eqb h "W")).
Proof.
  intros. unfold g_from_dms_convert, dms_value. cbn [fst snd].
  destruct (Ascii.eqb h "S" || Ascii.eqb h "W"); reflexivity.
Qed.

(* the argument tuple that is the output of to_dms for the axis t *)
Definition dms_arg (letters : ascii * ascii) (t : dms) : Q * Q * Q * ascii :=
  (inject_Z (dg t), inject_Z (mn t), (inject_Z (s5 t) / p10 5)%Q, if pos t then fst letters else snd letters).

Lemma geq_from_dms : forall lo la, g_from_dms (dms_arg EW lo) (dms_arg NS la) = from_dms lo la.
Proof.
  intros. unfold g_from_dms, from_dms, dms_arg, dms_num. rewrite !geq_from_dms_convert.
  destruct (pos lo), (pos la); reflexivity.
Qed.

(* ------------------------------------------------------------------ from_qdms *)
Lemma digit_val_not_dot : forall a d, digit_val a = Some d -> Ascii.eqb a "." = false.
Proof.
  intros a d H. destruct (Ascii.eqb a ".") eqn:E; [|reflexivity].
  apply Ascii.eqb_eq in E. subst. discriminate H.
Qed.

Lemma parse_acc_split : forall s acc d, parse_acc s acc = Some d -> split_dot s = (s, None).
Proof.
  induction s as [|a r IH]; intros acc d H; cbn [parse_acc split_dot] in *; [reflexivity|].
  destruct (digit_val a) as [v|] eqn:Dv; [|discriminate].
  rewrite (digit_val_not_dot _ _ Dv). rewrite (IH _ _ H). reflexivity.
Qed.

Lemma parse_nat_split : forall s d, parse_nat s = Some d -> split_dot s = (s, None).
Proof. intros s d H. destruct s; [discriminate|]. eapply parse_acc_split. exact H. Qed.

(* float(s) of a digit string *)
Lemma float_of_digits : forall s d, parse_nat s = Some d -> float_of_string s = Some (inject_Z d).
Proof. intros s d H. unfold float_of_string. rewrite (parse_nat_split _ _ H), H. reflexivity. Qed.

Lemma split_dot_app : forall a b, split_dot a = (a, None) -> split_dot (a ++ String "." b) = (a, Some b).
Proof.
  induction a as [|x a IH]; intros b H; cbn [append split_dot] in *; [reflexivity|].
  destruct (Ascii.eqb x "."); [discriminate|].
  destruct (split_dot a) as [i f] eqn:S. injection H as -> ->. rewrite (IH b eq_refl). reflexivity.
Qed.

(* float(a + '.' + b) of two digit strings *)
Lemma float_of_dotted : forall a b x y, parse_nat a = Some x -> parse_nat b = Some y ->
  float_of_string (a ++ String "." b) =
  Some (inject_Z x + inject_Z y / inject_Z (10 ^ Z.of_nat (String.length b)))%Q.
Proof.
  intros a b x y Ha Hb. unfold float_of_string.
  rewrite (split_dot_app _ _ (parse_nat_split _ _ Ha)), Ha, Hb. reflexivity.
Qed.

(* the nested convert(q, d, m, s):  s is the 4-character SSHH field *)
Lemma geq_from_qdms_convert : forall q d m s x y ss hh,
  parse_nat d = Some x -> parse_nat m = Some y -> String.length s = 4%nat ->
  parse_nat (substring 0 2 s) = Some ss -> parse_nat (substring 2 2 s) = Some hh ->
  g_from_qdms_convert q d m s =
  Some (let v := (inject_Z x + inject_Z y / 60 + (inject_Z ss + inject_Z hh / 100) / 3600)%Q in
        if (Ascii.eqb q "W" || Ascii.eqb q "S")%bool then (v * -1)%Q else (v * 1)%Q).
Proof.
  intros q d m s x y ss hh Hd Hm Hl Hs Hh.
  destruct s as [|c1 [|c2 [|c3 [|c4 [|c5 s]]]]]; try discriminate Hl.
  cbn [substring String.length Nat.sub] in *.
  unfold g_from_qdms_convert. rewrite (float_of_digits _ _ Hd), (float_of_digits _ _ Hm).
  cbn [substring String.length Nat.sub append].
  pose proof (float_of_dotted (String c1 (String c2 "")) (String c3 (String c4 "")) ss hh Hs Hh) as F.
  cbn [append] in F. rewrite F.
  cbv zeta. destruct (Ascii.eqb q "W" || Ascii.eqb q "S")%bool; reflexivity.
Qed.

Lemma substring_full : forall t, substring 0 (String.length t) t = t.
Proof. induction t as [|c t IH]; cbn [String.length substring]; [|rewrite IH]; reflexivity. Qed.

(* text[k:][n:n+m] = text[k+n:k+n+m] *)
Lemma substring_tail : forall str n m k,
  substring n m (substring k (String.length str - k) str) = substring (k + n) m str.
Proof.
  induction str as [|c s IH]; intros n m k.
  - destruct k, n, m; reflexivity.
  - destruct k as [|k].
    + rewrite Nat.sub_0_r, substring_full. reflexivity.
    + cbn [String.length Nat.sub Nat.add substring]. apply IH.
Qed.

Lemma substring_tail_length : forall k t, (k <= String.length t)%nat ->
  String.length (substring k (String.length t - k) t) = (String.length t - k)%nat.
Proof.
  induction k as [|k IH]; intros t Hk.
  - rewrite Nat.sub_0_r, substring_full. reflexivity.
  - destruct t as [|c t']; cbn [String.length] in Hk; [lia|].
    cbn [String.length Nat.sub substring]. apply IH. lia.
Qed.

(* one axis: on every text for which the model's qdms_value is defined, the code's slicing
   (str[0], str[1:1+w], the next two characters, the rest) and convert give the model's value *)
Lemma from_qdms_axis : forall (w : nat) str a, qdms_value w str = Some a ->
  exists q, String.get 0 str = Some q /\
    g_from_qdms_convert q (substring 1 w str) (substring (1 + w) 2 str)
                          (substring (3 + w) (String.length str - (3 + w)) str) = Some a.
Proof.
  intros w str a H. unfold qdms_value in H.
  destruct (String.length str =? S (w + 6))%nat eqn:L; cbn [negb] in H; [|discriminate].
  apply Nat.eqb_eq in L.
  destruct (String.get 0 str) as [q|]; [|discriminate]. exists q. split; [reflexivity|].
  destruct (parse_nat (substring 1 w str)) as [x|] eqn:Hx; [|discriminate].
  destruct (parse_nat (substring (1 + w) 2 str)) as [y|] eqn:Hy; [|discriminate].
  destruct (parse_nat (substring (3 + w) 2 str)) as [ss|] eqn:Hs; [|discriminate].
  destruct (parse_nat (substring (5 + w) 2 str)) as [hh|] eqn:Hh; [|discriminate].
  injection H as <-.
  apply geq_from_qdms_convert; try assumption.
  - rewrite substring_tail_length; lia.
  - rewrite substring_tail, Nat.add_0_r. exact Hs.
  - rewrite substring_tail. replace (3 + w + 2)%nat with (5 + w)%nat by lia. exact Hh.
Qed.

Lemma geq_from_qdms : forall slon slat r, from_qdms slon slat = Some r -> g_from_qdms slon slat = Some r.
Proof.
  intros slon slat r H. unfold from_qdms in H.
  destruct (qdms_value 3 slon) as [a|] eqn:Ha; [|discriminate].
  destruct (qdms_value 2 slat) as [b|] eqn:Hb; [|discriminate].
  injection H as <-.
  destruct (from_qdms_axis 3 slon a Ha) as [q1 [G1 C1]].
  destruct (from_qdms_axis 2 slat b Hb) as [q2 [G2 C2]].
  unfold g_from_qdms. cbn [fst snd Nat.add] in *. rewrite G1, C1, G2, C2. reflexivity.
Qed.

(* ------------------------------------------------------------------ projections (pyproj as a variable) *)
Section Glue.
  Variable from_crs : string -> string -> Q -> Q -> Q * Q.

  (* Transformer.from_crs('EPSG:4326', crs).transform(latitude, longitude); Coordinate(rhu y, rhu x, False):
     the literal False lands in z (finding D20), _bounded keeps its default *)
  Lemma geq_to_projection : forall c crs,
    g_to_projection from_crs c crs = to_projection (from_crs "EPSG:4326" crs) c.
  Proof.
    intros. unfold g_to_projection, to_projection, transform.
    destruct (from_crs "EPSG:4326"%string crs (clat c) (clon c)); reflexivity.
  Qed.

  (* Transformer.from_crs(crs, 'EPSG:4326').transform(lat, lon); Coordinate(rhu y, rhu x) *)
  Lemma geq_from_projection : forall lon lat crs,
    g_from_projection from_crs lon lat crs = from_projection (from_crs crs "EPSG:4326") lon lat.
  Proof.
    intros. unfold g_from_projection, from_projection, transform.
    destruct (from_crs crs "EPSG:4326"%string lat lon); reflexivity.
  Qed.

  (* MGRS: argument placement only (no model function; the mgrs package is a variable) *)
  Variable toMGRS : Q -> Q -> string.
  Variable toLatLon : string -> Q * Q.

  Lemma geq_to_mgrs_glue : forall c, g_to_mgrs toMGRS c = toMGRS (clat c) (clon c).
  Proof. reflexivity. Qed.

  Lemma geq_from_mgrs_glue : forall s,
    g_from_mgrs toLatLon s = let (lat, lon) := toLatLon (str_remove " " s) in mk lon lat None None true.
  Proof. intros. unfold g_from_mgrs, m_toLatLon. destruct (toLatLon _); reflexivity. Qed.
End Glue.
