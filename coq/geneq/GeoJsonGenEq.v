(* Translator tie for C14, EXPORT side: Coordinate.to_float, __geo_interface__ / to_geo_interface / linear_rings of
   every class, GeoPolygon.bounding_coords, properties / _properties_json / to_geojson, sanitize_json and
   CollectionBase.to_geojson, regenerated from the working tree by tools/gen_geojson.py (abstraction: its docstring /
   the header of GeoJsonGen.v), equal GeoJsonM's position / geometry / properties / sanitize / to_geojson /
   fc_to_geojson and RingM's geom_rings for ALL arguments.  The import side (from_geojson, get_dt_from_geojson_props,
   parse_geojson) is not translated: it stays tied by the correspondence only. *)
From Coq Require Import String.
From GV Require Import Prelude RingM GeoJsonM GeoJsonP.
From GVgen Require Import GeoJsonGen.
Open Scope list_scope.
Open Scope Z_scope.

(* ---------------------------------------------------------------- positions and rings *)
Lemma geq_coord_to_float : forall c,
  g_coord_to_float c false = lon c :: lat c :: match truthy_z (cz c) with Some z => [z] | None => [] end.
Proof.
  intros c. unfold g_coord_to_float, truthy_z, cm.
  destruct (cz c) as [v|]; [destruct (v =? 0)|]; reflexivity.
Qed.

Lemma geq_position : forall c, JArr (map (fun ij => JFloat ij) (g_coord_to_float c false)) = position c.
Proof.
  intros c. rewrite geq_coord_to_float. unfold position. destruct (truthy_z (cz c)); reflexivity.
Qed.

Lemma ring_eq : forall r,
  JArr (map (fun ij => JArr (map (fun ij0 => JFloat ij0) ij)) (map (fun x => g_coord_to_float x false) r)) = jring r.
Proof. intros r. unfold jring. rewrite map_map. f_equal. apply map_ext. exact geq_position. Qed.

Lemma rings_eq : forall L,
  map (fun ij => JArr (map (fun ij0 => JArr (map (fun ij1 => JFloat ij1) ij0)) ij))
      (map (fun ring => map (fun coord => g_coord_to_float coord false) ring) L) = map jring L.
Proof. intros L. rewrite map_map. apply map_ext. exact ring_eq. Qed.

Lemma dict2 : forall a b,
  dmerge (dset "coordinates" b (dset "type" a [])) [] = [("type"%string, a); ("coordinates"%string, b)].
Proof. reflexivity. Qed.

Lemma dict2' : forall a b,
  dmerge [("type"%string, a); ("coordinates"%string, b)] [] = [("type"%string, a); ("coordinates"%string, b)].
Proof. reflexivity. Qed.

Lemma dict2s : forall a b, dset "coordinates" b (dset "type" a []) = [("type"%string, a); ("coordinates"%string, b)].
Proof. reflexivity. Qed.

(* ---------------------------------------------------------------- __geo_interface__ / to_geo_interface *)
Lemma geq_point_geo_interface : forall orc c, JObj (g_point_geo_interface c) = geometry orc None (GPoint c).
Proof. intros. unfold g_point_geo_interface, pt_coordinate, geometry. rewrite dict2s, geq_position. reflexivity. Qed.

Lemma geq_point_to_geo_interface : forall bbox orc k c,
  JObj (g_point_to_geo_interface bbox c (k, false)) = geometry orc k (GPoint c).
Proof.
  intros. unfold g_point_to_geo_interface, g_point_geo_interface, pt_coordinate, geometry. cbn [snd].
  rewrite dict2, geq_position. reflexivity.
Qed.

Lemma geq_linestring_geo_interface : forall orc vs, JObj (g_linestring_geo_interface vs) = geometry orc None (GLine vs).
Proof. intros. unfold g_linestring_geo_interface, ln_vertices, geometry. rewrite dict2s, ring_eq. reflexivity. Qed.

Lemma geq_linestring_to_geo_interface : forall bbox orc k vs,
  JObj (g_linestring_to_geo_interface bbox vs (k, false)) = geometry orc k (GLine vs).
Proof.
  intros. unfold g_linestring_to_geo_interface, g_linestring_geo_interface, ln_vertices, geometry. cbn [snd].
  rewrite dict2, ring_eq. reflexivity.
Qed.

Lemma geq_multipoint_geo_interface : forall orc cs, JObj (g_multipoint_geo_interface cs) = geometry orc None (GMPoint cs).
Proof.
  intros. unfold g_multipoint_geo_interface, mp_geoshapes, g_point_centroid, pt_coordinate, geometry.
  rewrite dict2s, ring_eq. reflexivity.
Qed.

Lemma geq_multipoint_to_geo_interface : forall bbox orc k cs,
  JObj (g_multipoint_to_geo_interface bbox cs (k, false)) = geometry orc k (GMPoint cs).
Proof.
  intros. unfold g_multipoint_to_geo_interface, g_multipoint_geo_interface, mp_geoshapes, g_point_centroid, pt_coordinate, geometry.
  cbn [snd]. rewrite dict2, ring_eq. reflexivity.
Qed.

Lemma geq_multilinestring_geo_interface : forall orc ls,
  JObj (g_multilinestring_geo_interface ls) = geometry orc None (GMLine ls).
Proof.
  intros. unfold g_multilinestring_geo_interface, ml_geoshapes, ln_vertices, geometry. rewrite dict2s, rings_eq. reflexivity.
Qed.

Lemma geq_multilinestring_to_geo_interface : forall bbox orc k ls,
  JObj (g_multilinestring_to_geo_interface bbox ls (k, false)) = geometry orc k (GMLine ls).
Proof.
  intros. unfold g_multilinestring_to_geo_interface, g_multilinestring_geo_interface, ml_geoshapes, ln_vertices, geometry.
  cbn [snd]. rewrite dict2, rings_eq. reflexivity.
Qed.

(* PolygonBase: any receiver, through the rings its linear_rings(k=...) returns *)
Lemma geq_polybase_geo_interface : forall (lr : polybase),
  g_polybase_geo_interface lr = [("type"%string, JStr "Polygon"); ("coordinates"%string, JArr (map jring (lr None)))].
Proof. intros. unfold g_polybase_geo_interface, pb_linear_rings. rewrite dict2s, rings_eq. reflexivity. Qed.

Lemma geq_polybase_to_geo_interface : forall bbox (lr : polybase) k,
  g_polygon_to_geo_interface bbox lr (k, false) =
  [("type"%string, JStr "Polygon"); ("coordinates"%string, JArr (map jring (lr k)))].
Proof.
  intros. unfold g_polygon_to_geo_interface, pb_linear_rings. cbn [fst snd]. rewrite dict2, rings_eq. reflexivity.
Qed.

Lemma geq_polygon_to_geo_interface : forall bbox orc k p,
  JObj (g_polygon_to_geo_interface bbox (fun k => geom_rings orc k (GPoly p)) (k, false)) = geometry orc k (GPoly p).
Proof. intros. now rewrite geq_polybase_to_geo_interface. Qed.

Lemma geq_box_to_geo_interface : forall bbox orc k nw se hs,
  JObj (g_box_to_geo_interface bbox (fun k => geom_rings orc k (GBox nw se hs)) (k, false)) = geometry orc k (GBox nw se hs).
Proof.
  intros. unfold g_box_to_geo_interface, pb_linear_rings, geometry. cbn [fst snd]. rewrite dict2, rings_eq. reflexivity.
Qed.

Lemma geq_circle_to_geo_interface : forall bbox orc k id hs,
  JObj (g_circle_to_geo_interface bbox (fun k => geom_rings orc k (GRound id hs)) (k, false)) = geometry orc k (GRound id hs).
Proof.
  intros. unfold g_circle_to_geo_interface, pb_linear_rings, geometry. cbn [fst snd]. rewrite dict2, rings_eq. reflexivity.
Qed.

Lemma geq_ellipse_to_geo_interface : forall bbox orc k id hs,
  JObj (g_ellipse_to_geo_interface bbox (fun k => geom_rings orc k (GRound id hs)) (k, false)) = geometry orc k (GRound id hs).
Proof.
  intros. unfold g_ellipse_to_geo_interface, pb_linear_rings, geometry. cbn [fst snd]. rewrite dict2, rings_eq. reflexivity.
Qed.

Lemma geq_ring_to_geo_interface : forall bbox orc k g,
  (exists id hs, g = GRingFull id hs \/ g = GWedge id hs) ->
  JObj (g_ring_to_geo_interface bbox (fun k => geom_rings orc k g) (k, false)) = geometry orc k g.
Proof.
  intros bbox orc k g (id & hs & [-> | ->]);
    unfold g_ring_to_geo_interface, pb_linear_rings, geometry; cbn [fst snd]; rewrite dict2, rings_eq; reflexivity.
Qed.

Lemma mrings_eq : forall L,
  map (fun ij => JArr (map (fun ij0 => JArr (map (fun ij1 => JArr (map (fun ij2 => JFloat ij2) ij1)) ij0)) ij))
      (map (fun shape => map (fun ring => map (fun coord => g_coord_to_float coord false) ring) shape) L)
  = map (fun p => JArr (map jring p)) L.
Proof. intros L. rewrite map_map. apply map_ext. intros p. f_equal. apply rings_eq. Qed.

Lemma geq_multipolygon_geo_interface : forall orc ps,
  JObj (g_multipolygon_geo_interface (fun _ => map linear_rings ps)) = geometry orc None (GMPoly ps).
Proof.
  intros. unfold g_multipolygon_geo_interface, mp_linear_rings, geometry. rewrite dict2s, mrings_eq, map_map. reflexivity.
Qed.

Lemma geq_multipolygon_to_geo_interface : forall bbox orc k ps,
  JObj (g_multipolygon_to_geo_interface bbox (fun _ => map linear_rings ps) (k, false)) = geometry orc k (GMPoly ps).
Proof.
  intros. unfold g_multipolygon_to_geo_interface, mp_linear_rings, geometry. cbn [fst snd].
  rewrite dict2, mrings_eq, map_map. reflexivity.
Qed.

(* ---------------------------------------------------------------- linear_rings *)
Lemma geq_polygon_bounding_coords : forall o k, g_polygon_bounding_coords o k = o.
Proof. reflexivity. Qed.

(* shell, then every hole's bounding_coords() reversed *)
Lemma geq_polygon_linear_rings : forall orc k p,
  g_polygon_linear_rings (mkpolyrec (fun k => g_polygon_bounding_coords (outline p) k) (pholes p)) k = geom_rings orc k (GPoly p).
Proof. reflexivity. Qed.

Lemma geq_box_linear_rings : forall orc k nw se hs,
  g_box_linear_rings (mkpolyrec (fun _ => box_ring nw se) hs) k = geom_rings orc k (GBox nw se hs).
Proof. reflexivity. Qed.

Lemma geq_circle_linear_rings : forall orc k id hs,
  g_circle_linear_rings (mkpolyrec (o_outer orc id) hs) k = geom_rings orc k (GRound id hs).
Proof. reflexivity. Qed.

Lemma geq_ellipse_linear_rings : forall orc k id hs,
  g_ellipse_linear_rings (mkpolyrec (o_outer orc id) hs) k = geom_rings orc k (GRound id hs).
Proof. reflexivity. Qed.

(* GeoRing: the full ring closes both sampled circles and reverses the inner one; a wedge is one closed outline.
   (outer_bounds[0] raises IndexError on an empty sample; the model's firstn 1 does not - samples are never empty) *)
Lemma geq_ring_linear_rings : forall orc k id hs amin amax,
  o_outer orc id k <> [] -> o_inner orc id k <> [] ->
  g_ring_linear_rings (mkringrec (fun k => (o_outer orc id k, o_inner orc id k)) amin amax hs) k =
  Ok (geom_rings orc k (if (amin =? 0) && (amax =? 360) then GRingFull id hs else GWedge id hs)).
Proof.
  intros orc k id hs amin amax HO HI. unfold g_ring_linear_rings, hole_bc. cbn [rr_draw_bounds rr_amin rr_amax rr_holes].
  destruct (o_outer orc id k) as [|a o] eqn:EO; [congruence|].
  destruct (o_inner orc id k) as [|b i] eqn:EI; [congruence|].
  destruct ((amin =? 0) && (amax =? 360)); cbn [index0 geom_rings]; rewrite EO, EI; cbn [firstn]; unfold rings_of;
    repeat rewrite <- app_assoc; reflexivity.
Qed.

Lemma geq_multipolygon_linear_rings : forall k ps,
  g_multipolygon_linear_rings (map (fun p _ => linear_rings p) ps) k = map linear_rings ps.
Proof. intros. unfold g_multipolygon_linear_rings, pb_linear_rings. now rewrite map_map. Qed.

(* ---------------------------------------------------------------- properties, sanitize_json, to_geojson *)
Lemma geq_sanitize_json : forall j, g_sanitize_json j = sanitize j.
Proof.
  induction j using json_ind'; cbn; try reflexivity.
  all: f_equal; apply map_ext_in; intros x Hx; rewrite Forall_forall in H; try (destruct x; cbn; f_equal); now apply (H _ Hx).
Qed.

Definition to_shape (g : geom) (s : shp) : shape := mkshape g (sh_dt s) (sh_props s).

Lemma geq_start : forall s a b, sh_dt s = Some (a, b) -> g_start s = Ok a /\ g_end s = Ok b.
Proof. intros s a b H. unfold g_start, g_end. rewrite H. split; reflexivity. Qed.

(* the properties copy, with datetime_start then datetime_end set when the shape has a time *)
Lemma geq_properties : forall g s, g_properties s = Ok (properties (to_shape g s)).
Proof.
  intros g s. unfold g_properties, properties, to_shape, g_start, g_end. cbn [sdt sprops].
  destruct (sh_dt s) as [[a b]|]; reflexivity.
Qed.

Lemma geq_properties_json : forall g s, g_properties_json s = Ok (sanitize_dict (properties (to_shape g s))).
Proof.
  intros g s. unfold g_properties_json. rewrite (geq_properties g). rewrite geq_sanitize_json. reflexivity.
Qed.

Lemma dict3 : forall a b c kw,
  dmerge (dset "properties" c (dset "geometry" b (dset "type" a []))) kw =
  dmerge [("type"%string, a); ("geometry"%string, b); ("properties"%string, c)] kw.
Proof. reflexivity. Qed.

(* Feature: type, geometry (dynamic dispatch to the class's to_geo_interface, here any function that returns the
   model's geometry), properties = {**sanitised own properties, **(properties or {})}, then the other keywords *)
Lemma geq_to_geojson : forall orc g s ups k kw,
  JObj (sh_geo s (k, false)) = geometry orc k g ->
  g_to_geojson s ups (mkfkw k false kw) = Ok (match to_geojson orc (to_shape g s) ups k kw with JObj d => d | _ => [] end)
  /\ exists d, to_geojson orc (to_shape g s) ups k kw = JObj d.
Proof.
  intros orc g s ups k kw HG. unfold g_to_geojson. rewrite (geq_properties_json g). cbn [fk fbbox frest].
  unfold mk_gkw. rewrite dict3. unfold to_geojson. change (sgeom (to_shape g s)) with g. rewrite <- HG. unfold or_empty.
  split; [reflexivity|eexists; reflexivity].
Qed.

(* FeatureCollection / Track: features in order, id = position *)
Lemma imapR_features : forall orc ups k (l : list (shp * geom)) i,
  (forall s g, In (s, g) l -> forall k, JObj (sh_geo s (k, false)) = geometry orc k g) ->
  imapR_from (fun idx x => match g_to_geojson x ups (mkfkw k false (dset "id" (JInt idx) [])) with
                           | Err e => Err e | Ok cr1 => Ok cr1 end) i (map fst l)
  = Ok (map (fun j => match j with JObj d => d | _ => [] end)
            (features_from orc i (map (fun sg => to_shape (snd sg) (fst sg)) l) ups k))
  /\ Forall (fun j => exists d, j = JObj d) (features_from orc i (map (fun sg => to_shape (snd sg) (fst sg)) l) ups k).
Proof.
  intros orc ups k l. induction l as [|[s g] t IH]; intros i H; cbn [map imapR_from features_from fst snd].
  - split; [reflexivity|constructor].
  - destruct (geq_to_geojson orc g s ups k [("id"%string, JInt i)] (H s g (or_introl eq_refl) k)) as [E [d Ed]].
    change (dset "id" (JInt i) []) with [("id"%string, JInt i)]. rewrite E.
    destruct (IH (i + 1)) as [IH1 IH2]. { intros s' g' Hin. apply H. now right. }
    rewrite IH1. split; [reflexivity|]. constructor; [now exists d|exact IH2].
Qed.

Lemma map_jobj_inv : forall l, Forall (fun j => exists d, j = JObj d) l ->
  map (fun ij => JObj ij) (map (fun j => match j with JObj d => d | _ => [] end) l) = l.
Proof.
  induction 1 as [|j t [d ->] _ IH]; cbn; [reflexivity|]. now rewrite IH.
Qed.

Lemma geq_fc_to_geojson : forall orc ups k (l : list (shp * geom)),
  (forall s g, In (s, g) l -> forall k, JObj (sh_geo s (k, false)) = geometry orc k g) ->
  exists d, g_fc_to_geojson (map fst l) ups k = Ok d /\
            JObj d = fc_to_geojson orc (map (fun sg => to_shape (snd sg) (fst sg)) l) ups k.
Proof.
  intros orc ups k l H. unfold g_fc_to_geojson. destruct (imapR_features orc ups k l 0 H) as [E F]. rewrite E.
  eexists. split; [reflexivity|]. unfold fc_to_geojson. rewrite (map_jobj_inv _ F). reflexivity.
Qed.

Lemma geq_track_to_geojson : forall orc ups k (l : list (shp * geom)),
  (forall s g, In (s, g) l -> forall k, JObj (sh_geo s (k, false)) = geometry orc k g) ->
  exists d, g_track_to_geojson (map fst l) ups k = Ok d /\
            JObj d = fc_to_geojson orc (map (fun sg => to_shape (snd sg) (fst sg)) l) ups k.
Proof.
  intros orc ups k l H. unfold g_track_to_geojson. destruct (imapR_features orc ups k l 0 H) as [E F]. rewrite E.
  eexists. split; [reflexivity|]. unfold fc_to_geojson. rewrite (map_jobj_inv _ F). reflexivity.
Qed.
