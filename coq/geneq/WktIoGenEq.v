(* Translator tie for C13, writer / reader assembly: the to_wkt methods, _linear_ring_to_wkt, Coordinate.to_str,
   Coordinate.from_wkt, _parse_wkt_linear_ring, the six from_wkt class methods and parsers.parse_wkt, regenerated
   from the working tree by tools/gen_wktio.py (abstraction: its docstring / the header of WktIoGen.v), equal
   WktM's token-level write / coord_of / read (= gate + parse_body + assemble) / parse_wkt for ALL arguments.
   (The regular expressions and the keyword table: WktGenEq.v; GeoPolygon.__init__: RingGenEq.v.) *)
From GV Require Import Prelude RingM WktM.
From GVgen Require Import WktIoGen.
Open Scope Z_scope.

(* ---------------------------------------------------------------- loops *)
Lemma loop_acc_map {A B} (f : A -> B) xs acc : loop_acc f xs acc = acc ++ map f xs.
Proof.
  unfold loop_acc. revert acc. induction xs as [|x t IH]; intros acc; cbn.
  - now rewrite app_nil_r.
  - rewrite IH, <- app_assoc. reflexivity.
Qed.

Lemma loop_app_mapR {A B} (f : A -> res B) xs acc :
  loop_app f xs acc = match mapR f xs with Err e => Err e | Ok l => Ok (acc ++ l) end.
Proof.
  revert acc. induction xs as [|x t IH]; intros acc; cbn.
  - now rewrite app_nil_r.
  - destruct (f x) as [b|e]; [|reflexivity]. rewrite IH. destruct (mapR f t); [|reflexivity].
    now rewrite <- app_assoc.
Qed.

Lemma mapR_ext {A B} (f g : A -> res B) l : (forall a, f a = g a) -> mapR f l = mapR g l.
Proof. intros H. induction l as [|a t IH]; cbn; [reflexivity|]. now rewrite H, IH. Qed.

Lemma mapR_ok {A B} (f : A -> res B) (g : A -> B) l :
  (forall a, In a l -> f a = Ok (g a)) -> mapR f l = Ok (map g l).
Proof.
  induction l as [|a t IH]; intros H; cbn; [reflexivity|].
  rewrite (H a (or_introl eq_refl)), IH; [reflexivity|]. intros; apply H; now right.
Qed.

Lemma mapR_map_ok {A A' B} (h : A -> A') (f : A' -> res B) (g : A -> B) l :
  (forall a, In a l -> f (h a) = Ok (g a)) -> mapR f (map h l) = Ok (map g l).
Proof.
  induction l as [|a t IH]; intros H; cbn; [reflexivity|].
  rewrite (H a (or_introl eq_refl)), IH; [reflexivity|]. intros; apply H; now right.
Qed.

Lemma mapR_id_wrap {A B} (f : A -> res B) l :
  mapR (fun a => match f a with Err e => Err e | Ok b => Ok b end) l = mapR f l.
Proof. apply mapR_ext. intros a. now destruct (f a). Qed.

(* ---------------------------------------------------------------- writers *)

(* Coordinate.to_str: longitude, latitude, then z only when truthy (D14); reverse swaps the first two *)
Lemma geq_coord_to_str : forall c, g_coord_to_str c false = tuple_of c.
Proof.
  intros c. unfold g_coord_to_str, tuple_of, truthy_z, cm.
  destruct (cz c) as [v|]; [destruct (v =? 0)|]; reflexivity.
Qed.

Lemma geq_coord_to_str_reverse : forall c,
  g_coord_to_str c true = lat c :: lon c :: match truthy_z (cz c) with Some z => [z] | None => [] end.
Proof.
  intros c. unfold g_coord_to_str, truthy_z, cm.
  destruct (cz c) as [v|]; [destruct (v =? 0)|]; reflexivity.
Qed.

Lemma geq_point_centroid : forall c, g_point_centroid c = c.
Proof. reflexivity. Qed.

Lemma geq_linear_ring_to_wkt : forall r, g_linear_ring_to_wkt r = wring r.
Proof. intros r. unfold g_linear_ring_to_wkt, wring. apply map_ext. exact geq_coord_to_str. Qed.

Lemma geq_point_to_wkt : forall orc k c, g_point_to_wkt c = write orc k (GPoint c).
Proof. intros. unfold g_point_to_wkt, pt_coordinate, write. now rewrite geq_coord_to_str. Qed.

Lemma geq_linestring_to_wkt : forall orc k k' vs, g_linestring_to_wkt vs k' = write orc k (GLine vs).
Proof. intros. unfold g_linestring_to_wkt, ln_vertices, write. now rewrite geq_linear_ring_to_wkt. Qed.

(* PolygonBase.to_wkt, for any receiver: the rings its linear_rings( **kwargs) returns *)
Lemma geq_polybase_to_wkt : forall (lr : polybase) k,
  g_polygon_to_wkt lr k = mkwkt (Some TPoly) true [] (W2 (map wring (lr k))).
Proof.
  intros. unfold g_polygon_to_wkt, pb_linear_rings. do 2 f_equal. apply map_ext. exact geq_linear_ring_to_wkt.
Qed.

(* GeoPolygon / GeoBox / GeoCircle / GeoEllipse inherit it (the generator resolves to_wkt through the MRO of each class) *)
Lemma geq_polygon_to_wkt : forall orc k p,
  g_polygon_to_wkt (fun k => geom_rings orc k (GPoly p)) k = write orc k (GPoly p).
Proof. intros. now rewrite geq_polybase_to_wkt. Qed.

Lemma geq_box_to_wkt : forall orc k nw se hs,
  g_box_to_wkt (fun k => geom_rings orc k (GBox nw se hs)) k = write orc k (GBox nw se hs).
Proof.
  intros. unfold g_box_to_wkt, pb_linear_rings, write. do 2 f_equal. apply map_ext. exact geq_linear_ring_to_wkt.
Qed.

Lemma geq_circle_to_wkt : forall orc k id hs,
  g_circle_to_wkt (fun k => geom_rings orc k (GRound id hs)) k = write orc k (GRound id hs).
Proof.
  intros. unfold g_circle_to_wkt, pb_linear_rings, write. do 2 f_equal. apply map_ext. exact geq_linear_ring_to_wkt.
Qed.

Lemma geq_ellipse_to_wkt : forall orc k id hs,
  g_ellipse_to_wkt (fun k => geom_rings orc k (GRound id hs)) k = write orc k (GRound id hs).
Proof.
  intros. unfold g_ellipse_to_wkt, pb_linear_rings, write. do 2 f_equal. apply map_ext. exact geq_linear_ring_to_wkt.
Qed.

(* GeoRing.to_wkt: the full ring is written from two sampled circles and the reversed holes; a wedge as a polygon *)
Lemma geq_ring_to_wkt : forall circle_bc (r : ringrec) k id,
  g_ring_to_wkt circle_bc r k =
  if (rg_amin r =? 0) && (rg_amax r =? 360)
  then write (mkoracle (fun _ k => circle_bc (rg_center r) (rg_outer r) k)
                       (fun _ k => circle_bc (rg_center r) (rg_inner r) k)) k (GRingFull id (rg_holes r))
  else mkwkt (Some TPoly) true [] (W2 (map wring (rg_linear_rings r k))).
Proof.
  intros. unfold g_ring_to_wkt. destruct ((rg_amin r =? 0) && (rg_amax r =? 360)).
  - unfold circle_bounding_coords, mk_circle, hole_bc, write. cbn [fst snd o_outer o_inner map]. do 2 f_equal.
    cbn [app]. unfold wring at 1 2. f_equal; [apply map_ext; exact geq_coord_to_str|].
    f_equal; [apply map_ext; exact geq_coord_to_str|].
    rewrite map_map. apply map_ext. intros h. apply geq_linear_ring_to_wkt.
  - apply geq_polybase_to_wkt.
Qed.

Lemma geq_wedge_to_wkt : forall circle_bc orc (r : ringrec) k id,
  (rg_amin r =? 0) && (rg_amax r =? 360) = false ->
  rg_linear_rings r = (fun k => geom_rings orc k (GWedge id (rg_holes r))) ->
  g_ring_to_wkt circle_bc r k = write orc k (GWedge id (rg_holes r)).
Proof. intros * H L. rewrite (geq_ring_to_wkt circle_bc r k id), H, L. reflexivity. Qed.

Lemma geq_multilinestring_to_wkt : forall orc k ls, g_multilinestring_to_wkt ls = write orc k (GMLine ls).
Proof.
  intros. unfold g_multilinestring_to_wkt, ml_geoshapes, ln_vertices, write. do 2 f_equal.
  apply map_ext. exact geq_linear_ring_to_wkt.
Qed.

Lemma geq_multipoint_to_wkt : forall orc k cs, g_multipoint_to_wkt cs = write orc k (GMPoint cs).
Proof.
  intros. unfold g_multipoint_to_wkt, mp_geoshapes, g_point_centroid, pt_coordinate, write, wring. do 2 f_equal.
  apply map_ext. exact geq_coord_to_str.
Qed.

Lemma geq_multipolygon_to_wkt_any : forall (lr : mpolyrec) k,
  g_multipolygon_to_wkt lr k = mkwkt (Some TMPoly) true [] (W3 (map (map wring) (lr k))).
Proof.
  intros. unfold g_multipolygon_to_wkt, mp_linear_rings. rewrite loop_acc_map. cbn [app]. do 2 f_equal.
  apply map_ext. intros p. apply map_ext. exact geq_linear_ring_to_wkt.
Qed.

Lemma geq_multipolygon_to_wkt : forall orc k ps,
  g_multipolygon_to_wkt (fun _ => map linear_rings ps) k = write orc k (GMPoly ps).
Proof. intros. rewrite geq_multipolygon_to_wkt_any. unfold write. now rewrite map_map. Qed.

(* ---------------------------------------------------------------- readers *)

Lemma zm_assign_fold : forall order vals z,
  zm_assign order vals z =
  fold_left (fun acc kv => if zml_eqb (fst kv) LZ then Some (snd kv) else acc) (combine order vals) z.
Proof.
  induction order as [|o t IH]; intros [|v vs] z; cbn; try reflexivity.
  rewrite IH. now destruct o.
Qed.

(* Coordinate.from_wkt: the first two numbers, then the Z value picked by position in the marker's order *)
Lemma geq_coord_from_wkt : forall m t, g_coord_from_wkt t (zm_order m) = coord_of m t.
Proof.
  intros m t. unfold g_coord_from_wkt, coord_of, dict_of, dict_get, coordinate_star.
  destruct t as [|x [|y [|z rest]]]; try reflexivity; [cbn; now destruct (zm_order m)|].
  replace (2 <? Z.of_nat (length (x :: y :: z :: rest))) with true
    by (symmetry; apply Z.ltb_lt; cbn [length]; lia).
  cbn [firstn skipn]. now rewrite zm_assign_fold.
Qed.

Lemma zm_head : forall w, index0 (or_list (findall_zm w) [[LZ; LM]]) = Ok (zm_order (w_zm w)).
Proof. intros w. unfold findall_zm, zm_order. now destruct (w_zm w). Qed.

Lemma geq_parse_ring_r : forall w r, g_parse_ring_r w r = mapR (coord_of (w_zm w)) r.
Proof.
  intros w r. unfold g_parse_ring_r. rewrite zm_head.
  erewrite mapR_ext with (g := coord_of (w_zm w)).
  - now destruct (mapR _ r).
  - intros t. rewrite geq_coord_from_wkt. now destruct (coord_of _ t).
Qed.

Lemma geq_parse_ring_c : forall w c, g_parse_ring_c w c = mapR (coord_of (w_zm w)) [c].
Proof.
  intros w c. unfold g_parse_ring_c. rewrite zm_head.
  erewrite mapR_ext with (g := coord_of (w_zm w)).
  - now destruct (mapR _ [c]).
  - intros t. rewrite geq_coord_from_wkt. now destruct (coord_of _ t).
Qed.

(* what a passed gate says about the tree *)
Definition good_ring (r : list tuple) : bool := nonempty r && forallb arity_ok r.

Ltac gate_inv H :=
  unfold gate in H;
  match type of H with context [w_tag ?w] => destruct (w_tag w) as [[]|]; cbn in H; try discriminate H end;
  match type of H with context [w_body ?w] => destruct (w_body w) as [l|l|l]; cbn in H; try discriminate H end.

Lemma gate_point_inv : forall w, gate TPoint w = true -> exists c, w_body w = W1 [c].
Proof. intros w H. gate_inv H. destruct l as [|c [|? ?]]; try discriminate H. now exists c. Qed.

Lemma gate_line_inv : forall w, gate TLine w = true -> exists l, w_body w = W1 l.
Proof. intros w H. gate_inv H. now exists l. Qed.

Lemma gate_poly_inv : forall w, gate TPoly w = true ->
  exists r0 rs, w_body w = W2 (r0 :: rs) /\ forallb good_ring (r0 :: rs) = true.
Proof.
  intros w H. gate_inv H. destruct l as [|r0 rs]; [discriminate H|]. exists r0, rs. split; [reflexivity|exact H].
Qed.

Lemma gate_mline_inv : forall w, gate TMLine w = true -> exists l, w_body w = W2 l.
Proof. intros w H. gate_inv H. now exists l. Qed.

Lemma gate_mpoly_inv : forall w, gate TMPoly w = true ->
  exists l, w_body w = W3 l /\ forallb (fun p => nonempty p && forallb good_ring p) l = true.
Proof.
  intros w H. gate_inv H. exists l. split; [reflexivity|]. apply andb_prop in H. exact (proj2 H).
Qed.

Definition ctot (m : list zml) (t : tuple) : coord :=
  match t with
  | x :: y :: rest => mkc x y (zm_assign (zm_order m) rest None)
  | _ => mkc 0 0 None
  end.

Lemma coord_of_tot : forall m t, arity_ok t = true -> coord_of m t = Ok (ctot m t).
Proof. intros m [|x [|y rest]] H; try discriminate H. reflexivity. Qed.

Lemma ring_tot : forall m r, forallb arity_ok r = true -> mapR (coord_of m) r = Ok (map (ctot m) r).
Proof.
  intros m r H. apply mapR_ok. intros t Ht. apply coord_of_tot.
  rewrite forallb_forall in H. now apply H.
Qed.

Lemma good_ring_tot : forall m r, good_ring r = true ->
  mapR (coord_of m) r = Ok (map (ctot m) r) /\ map (ctot m) r <> [].
Proof.
  intros m r H. apply andb_prop in H. destruct H as [N A]. split; [now apply ring_tot|].
  destruct r; [discriminate N|discriminate].
Qed.

Lemma ctor_ok : forall half r, r <> [] -> ctor half r = Ok (norm_ring half false r).
Proof. intros half [|a t] H; [congruence|reflexivity]. Qed.

(* the polygon a group of good rings is assembled into *)
Definition hole_tot (half : Z) (m : list zml) (r : list tuple) : ring := norm_ring half false (map (ctot m) r).
Definition poly_tot (half : Z) (m : list zml) (p : list (list tuple)) : polygon :=
  match p with
  | r0 :: rs => mkpoly (hole_tot half m r0) (map (hole_tot half m) rs)
  | [] => mkpoly [] []
  end.

Lemma model_polygon_tot : forall half m r0 rs, forallb good_ring (r0 :: rs) = true ->
  match mapR (mapR (coord_of m)) (r0 :: rs) with
  | Err e => Err e
  | Ok l => assemble_polygon half l
  end = Ok (poly_tot half m (r0 :: rs)).
Proof.
  intros half m r0 rs H. rewrite forallb_forall in H.
  rewrite (mapR_ok _ (map (ctot m))).
  2:{ intros r Hr. apply (good_ring_tot m r). now apply H. }
  cbn [map assemble_polygon].
  rewrite (mapR_ok _ (norm_ring half false)).
  2:{ intros r Hr. apply in_map_iff in Hr. destruct Hr as (r' & <- & Hr').
      apply ctor_ok. apply (good_ring_tot m r'). apply H. now right. }
  rewrite map_map.
  rewrite ctor_ok; [reflexivity|]. apply (good_ring_tot m r0). apply H. now left.
Qed.

Lemma geq_point_from_wkt : forall half w, g_point_from_wkt w = read half TPoint w.
Proof.
  intros half w. unfold g_point_from_wkt, read. destruct (gate TPoint w) eqn:G; [|reflexivity]. cbn [negb].
  destruct (gate_point_inv w G) as [c E]. unfold findall_coord, parse_body. rewrite E. cbn [index0].
  rewrite geq_parse_ring_c. cbn [mapR]. destruct (coord_of (w_zm w) c); reflexivity.
Qed.

Lemma geq_linestring_from_wkt : forall half w, g_linestring_from_wkt w = read half TLine w.
Proof.
  intros half w. unfold g_linestring_from_wkt, read. destruct (gate TLine w) eqn:G; [|reflexivity]. cbn [negb].
  destruct (gate_line_inv w G) as [l E]. unfold findall_ring, parse_body. rewrite E. cbn [index0].
  rewrite geq_parse_ring_r. destruct (mapR (coord_of (w_zm w)) l); reflexivity.
Qed.

(* shell = first ring; every further ring a GeoPolygon hole, built before the shell's polygon *)
Lemma geq_polygon_from_wkt : forall half w, g_polygon_from_wkt half w = read half TPoly w.
Proof.
  intros half w. unfold g_polygon_from_wkt, read. destruct (gate TPoly w) eqn:G; [|reflexivity]. cbn [negb].
  destruct (gate_poly_inv w G) as (r0 & rs & E & H). unfold findall_ring, parse_body. rewrite E.
  pose proof (model_polygon_tot half (w_zm w) r0 rs H) as M.
  destruct (mapR (mapR (coord_of (w_zm w))) (r0 :: rs)) as [l|e]; [|discriminate M].
  cbn [assemble]. rewrite M. clear M.
  rewrite forallb_forall in H.
  cbn [index0]. rewrite geq_parse_ring_r.
  destruct (good_ring_tot (w_zm w) r0 (H r0 (or_introl eq_refl))) as [P0 N0]. rewrite P0.
  assert (HS : mapR (fun linear_ring =>
                 match g_parse_ring_r w linear_ring with
                 | Err e => Err e
                 | Ok cr3 => match ctor half cr3 with Err e => Err e | Ok cr4 => Ok cr4 end
                 end) rs = Ok (map (hole_tot half (w_zm w)) rs)).
  { apply mapR_ok. intros r Hr. rewrite geq_parse_ring_r.
    destruct (good_ring_tot (w_zm w) r (H r (or_intror Hr))) as [P N]. rewrite P, (ctor_ok half _ N). reflexivity. }
  unfold poly_ctor. rewrite (ctor_ok half _ N0).
  destruct rs as [|r1 rs'].
  - reflexivity.
  - replace (1 <? Z.of_nat (length (r0 :: r1 :: rs'))) with true by (symmetry; apply Z.ltb_lt; cbn [length]; lia).
    cbn [skipn].
    rewrite HS. reflexivity.
Qed.

Lemma geq_multipoint_from_wkt : forall half w, g_multipoint_from_wkt w = read half TMPoint w.
Proof.
  intros half w. unfold g_multipoint_from_wkt, read, gate_mpoint_flat, gate_mpoint_nested.
  destruct (gate TMPoint w) eqn:G; [|reflexivity]. cbn [andb].
  unfold findall_ring, parse_body. gate_inv G.
  - (* flat *) cbn [index0]. rewrite geq_parse_ring_r.
    destruct (mapR (coord_of (w_zm w)) l); [now rewrite map_id|reflexivity].
  - (* nested: one parenthesised coordinate per point *)
    erewrite mapR_ext with (g := mapR (coord_of (w_zm w))).
    2:{ intros r. rewrite geq_parse_ring_r. destruct (mapR _ r); [now rewrite map_id|reflexivity]. }
    destruct (mapR (mapR (coord_of (w_zm w))) l); [now rewrite map_id|reflexivity].
Qed.

Lemma geq_multilinestring_from_wkt : forall half w, g_multilinestring_from_wkt w = read half TMLine w.
Proof.
  intros half w. unfold g_multilinestring_from_wkt, read. destruct (gate TMLine w) eqn:G; [|reflexivity]. cbn [negb].
  destruct (gate_mline_inv w G) as [l E]. unfold findall_ring, parse_body. rewrite E.
  rewrite loop_app_mapR.
  erewrite mapR_ext with (g := mapR (coord_of (w_zm w))).
  2:{ intros r. rewrite geq_parse_ring_r. now destruct (mapR _ r). }
  destruct (mapR (mapR (coord_of (w_zm w))) l); reflexivity.
Qed.

Lemma geq_multipolygon_from_wkt : forall half w, g_multipolygon_from_wkt half w = read half TMPoly w.
Proof.
  intros half w. unfold g_multipolygon_from_wkt, read. destruct (gate TMPoly w) eqn:G; [|reflexivity]. cbn [negb].
  destruct (gate_mpoly_inv w G) as (l & E & H). unfold findall_rings, parse_body. rewrite E.
  rewrite forallb_forall in H.
  (* the model: every group parses, then assembles, to poly_tot *)
  assert (M : match mapR (mapR (mapR (coord_of (w_zm w)))) l with
              | Err e => Err e
              | Ok b => assemble half TMPoly (C3 b)
              end = Ok (GMPoly (map (poly_tot half (w_zm w)) l))).
  { rewrite (mapR_ok _ (map (map (ctot (w_zm w))))).
    2:{ intros p Hp. specialize (H p Hp). apply andb_prop in H. destruct H as [_ H]. rewrite forallb_forall in H.
        apply mapR_ok. intros r Hr. apply (good_ring_tot (w_zm w) r). now apply H. }
    cbn [assemble]. rewrite (mapR_map_ok _ _ (fun p => poly_tot half (w_zm w) p)).
    - reflexivity.
    - intros p Hp.
      specialize (H p Hp). apply andb_prop in H. destruct H as [N H]. destruct p as [|r0 rs]; [discriminate N|].
      pose proof (model_polygon_tot half (w_zm w) r0 rs H) as MP.
      rewrite forallb_forall in H.
      rewrite (mapR_ok _ (map (ctot (w_zm w)))) in MP.
      2:{ intros r Hr. apply (good_ring_tot (w_zm w) r). now apply H. }
      exact MP. }
  destruct (mapR (mapR (mapR (coord_of (w_zm w)))) l) as [b|e]; [|discriminate M].
  etransitivity; [|symmetry; exact M]. clear M b.
  (* the generated loop *)
  rewrite loop_app_mapR.
  rewrite (mapR_ok _ (fun p => poly_tot half (w_zm w) p)); [reflexivity|].
  intros p Hp. specialize (H p Hp). apply andb_prop in H. destruct H as [N H]. destruct p as [|r0 rs]; [discriminate N|].
  rewrite forallb_forall in H. cbn [index0]. rewrite geq_parse_ring_r.
  destruct (good_ring_tot (w_zm w) r0 (H r0 (or_introl eq_refl))) as [P0 N0]. rewrite P0.
  unfold poly_ctor. rewrite (ctor_ok half _ N0).
  destruct rs as [|r1 rs'].
  - reflexivity.
  - replace (1 <? Z.of_nat (length (r0 :: r1 :: rs'))) with true by (symmetry; apply Z.ltb_lt; cbn [length]; lia).
    cbn [skipn].
    rewrite loop_app_mapR.
    rewrite (mapR_ok _ (fun r => hole_tot half (w_zm w) r)); [reflexivity|].
    intros r Hr. rewrite geq_parse_ring_r.
    destruct (good_ring_tot (w_zm w) r (H r (or_intror Hr))) as [P Nr]. rewrite P, (ctor_ok half _ Nr). reflexivity.
Qed.

(* ---------------------------------------------------------------- parse_wkt *)

(* the parser table read from parsers._PARSER_MAP: each capital keyword bound to its own class's from_wkt *)
Lemma geq_parser_map : forall half,
  g_parser_map half =
  [(TPoint, g_point_from_wkt); (TLine, g_linestring_from_wkt); (TPoly, g_polygon_from_wkt half);
   (TMPoint, g_multipoint_from_wkt); (TMLine, g_multilinestring_from_wkt); (TMPoly, g_multipolygon_from_wkt half)].
Proof. reflexivity. Qed.

(* dispatch on the leading word: only the six keywords in capitals, then that type's reader.  has_word tells
   whether the text starts with a letter at all; a text that does not has no keyword (w_tag = None) *)
Lemma geq_parse_wkt : forall half has_word w,
  (has_word w = false -> w_tag w = None) ->
  g_parse_wkt half has_word w = parse_wkt half w.
Proof.
  intros half has_word w HW. unfold g_parse_wkt, parse_wkt, leading_word, wm_group.
  destruct (has_word w).
  - unfold pm_contains, pm_getitem, pm_lookup, parser_from_wkt.
    destruct (w_tag w) as [t|]; [|reflexivity]. destruct (w_upper w); [|reflexivity].
    destruct t; cbn.
    + rewrite <- (geq_point_from_wkt half). now destruct (g_point_from_wkt w).
    + rewrite <- (geq_linestring_from_wkt half). now destruct (g_linestring_from_wkt w).
    + rewrite <- geq_polygon_from_wkt. now destruct (g_polygon_from_wkt half w).
    + rewrite <- (geq_multipoint_from_wkt half). now destruct (g_multipoint_from_wkt w).
    + rewrite <- (geq_multilinestring_from_wkt half). now destruct (g_multilinestring_from_wkt w).
    + rewrite <- geq_multipolygon_from_wkt. now destruct (g_multipolygon_from_wkt half w).
  - now rewrite (HW eq_refl).
Qed.
