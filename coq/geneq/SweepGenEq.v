(* Translator tie for C02, the sweep: do_edges_intersect regenerated from the working tree by tools/gen_sweep.py
   equals SweepM.sweep for ALL edge lists and every segment test.
     geq_event_lt / geq_event_eq / geq_event_hash_consistent : _Event.__lt__ is SweepM.ev_lt (starts before ends on a
        tie), __eq__ is equality of the SweepM key (segment, group), and __eq__ is equality of the __hash__ keys
        (what makes "a set of events" a duplicate-free list under __eq__);
     geq_create_events : the event-creation loop (latitude flip, two events per edge) is SweepM.create_events;
     geq_sort : list.sort() by the generated __lt__ is SweepM.sort_events true;
     geq_sweep_body : one iteration of the generated loop against one unfolding of SweepM.sweep_loop, under the
        simulation  "the model's active set is the list of keys of the generated active set";
     geq_do_edges_intersect : the whole function, for an arbitrary find_line_intersection `fli` (hit := fli a b is not None);
     geq_do_edges_intersect_fli : instantiated with the generated find_line_intersection itself (GeomGen.v,
        regenerated in the same run; GeomGenEq.geq_hit) it is SweepM.sweep GeomM.hit, the function PairM uses. *)
From Coq Require Import QArith.
From GV Require Import Prelude GeomM SweepM.
From GVgen Require Import SweepGen GeomGen GeomGenEq.
Open Scope Z_scope.

Lemma geq_event_lt : forall a b, g_do_edges_intersect_Event_lt a b = ev_lt true a b.
Proof.
  intros a b. unfold g_do_edges_intersect_Event_lt, py_lt_Zb, ev_lt. cbn [fst snd andb].
  rewrite negb_involutive. destruct (ex a <? ex b), (ex a =? ex b), (estart a), (estart b); reflexivity.
Qed.

Lemma geq_event_eq : forall a b, g_do_edges_intersect_Event_eq a b = key_eqb (ekey a) (ekey b).
Proof. reflexivity. Qed.

Lemma geq_event_hash_consistent : forall a b,
  g_do_edges_intersect_Event_eq a b = key_eqb (g_do_edges_intersect_Event_hash a) (g_do_edges_intersect_Event_hash b).
Proof. reflexivity. Qed.

Lemma create_events_loop g edges : forall acc,
  loop_ret (g_do_edges_intersect_create_events_body1 g) (fun v => v) acc edges = acc ++ create_events g edges.
Proof.
  induction edges as [|e edges IH]; intros acc; cbn [loop_ret create_events flat_map]; [now rewrite app_nil_r|].
  unfold g_do_edges_intersect_create_events_body1. cbv zeta. rewrite IH, <- app_assoc. f_equal. f_equal.
  unfold events_of_edge, norm_edge, swap_sg, lat. destruct e as [[x1 y1] [x2 y2]]. cbn [fst snd].
  replace (y1 >? y2) with (y2 <? y1) by lia. destruct (y2 <? y1); reflexivity.
Qed.

Lemma geq_create_events : forall edges g, g_do_edges_intersect_create_events edges g = create_events g edges.
Proof. intros. unfold g_do_edges_intersect_create_events. apply create_events_loop. Qed.

Lemma geq_sort : forall l, py_sort g_do_edges_intersect_Event_lt l = sort_events true l.
Proof.
  intros l. unfold py_sort, sort_events. induction l as [|x l IH]; cbn [fold_right]; [reflexivity|]. rewrite IH.
  generalize (fold_right (insert_ev true) [] l). intros s. induction s as [|y s IHs]; cbn; [reflexivity|].
  rewrite geq_event_lt, IHs. reflexivity.
Qed.

(* ---- the active set: the model keeps keys, the generated code keeps the events themselves *)
Lemma set_discard_keys e act :
  map ekey (py_set_discard g_do_edges_intersect_Event_eq e act) = adiscard (ekey e) (map ekey act).
Proof.
  unfold py_set_discard, adiscard. induction act as [|a act IH]; cbn; [reflexivity|].
  rewrite geq_event_eq. destruct (key_eqb (ekey e) (ekey a)); cbn; rewrite IH; reflexivity.
Qed.
Lemma mem_keys e act : existsb (g_do_edges_intersect_Event_eq e) act = amem (ekey e) (map ekey act).
Proof.
  unfold amem. induction act as [|a act IH]; cbn; [reflexivity|]. rewrite geq_event_eq, IH. reflexivity.
Qed.
Lemma set_add_keys e act :
  map ekey (py_set_add g_do_edges_intersect_Event_eq e act) = aadd (ekey e) (map ekey act).
Proof. unfold py_set_add, aadd. rewrite mem_keys. destruct (amem _ _); reflexivity. Qed.

(* len(set(groups of [*active, event])) <= 1  <->  every active key has the event's group *)
Lemma grp_eqb_eq a b : grp_eqb a b = true <-> a = b.
Proof. destruct a, b; cbn; split; congruence. Qed.
Definition distinct (l : list grp) : list grp :=
  fold_right (fun x acc => if existsb (grp_eqb x) acc then acc else x :: acc) [] l.
Lemma distinct_last l g : existsb (grp_eqb g) (distinct (l ++ [g])) = true.
Proof.
  induction l as [|x l IH]; cbn; [destruct g; reflexivity|]. fold (distinct (l ++ [g])).
  destruct (existsb (grp_eqb x) (distinct (l ++ [g]))) eqn:E; [exact IH|]. cbn. rewrite IH. apply orb_true_r.
Qed.
Lemma same_group_count l g :
  (Z.of_nat (length (distinct (l ++ [g]))) <=? 1) = forallb (fun x => grp_eqb x g) l.
Proof.
  induction l as [|x l IH]; [reflexivity|]. cbn [app distinct fold_right forallb]. fold (distinct (l ++ [g])).
  pose proof (distinct_last l g) as Hg.
  destruct (existsb (grp_eqb x) (distinct (l ++ [g]))) eqn:E.
  - rewrite IH. destruct (forallb (fun x0 => grp_eqb x0 g) l) eqn:F; [|now rewrite andb_false_r].
    rewrite andb_true_r. symmetry.
    destruct (distinct (l ++ [g])) as [|d [|d' r]]; [discriminate| |cbn in IH; lia].
    cbn in E, Hg. rewrite orb_false_r in *. apply grp_eqb_eq in E, Hg. subst. destruct d; reflexivity.
  - destruct (distinct (l ++ [g])) as [|d r]; [discriminate|].
    cbn [length]. replace (Z.of_nat (S (S (length r))) <=? 1) with false by lia.
    destruct (grp_eqb x g) eqn:Exg; [|reflexivity]. apply grp_eqb_eq in Exg. subst. congruence.
Qed.
Lemma same_group_keys e act :
  (py_count_distinct grp_eqb (map (fun x => egrp x) (act ++ [e])) <=? 1) = same_group (ekey e) (map ekey act).
Proof.
  unfold py_count_distinct, same_group. rewrite map_app. cbn [map]. fold (distinct (map (fun x => egrp x) act ++ [egrp e])).
  rewrite same_group_count. induction act as [|a act IH]; cbn; [reflexivity|]. rewrite IH. reflexivity.
Qed.

Section WithFli.
  Variable T : Type.
  Variable fli : sg -> sg -> option T.
  Definition hit_of (a b : sg) : bool := match fli a b with Some _ => true | None => false end.

  Lemma any_hit_keys e act :
    loop_any (fun a => if grp_eqb (egrp e) (egrp a) then false
                       else match fli (eseg a) (eseg e) with None => false | Some _ => true end) act
    = any_hit hit_of (ekey e) (map ekey act).
  Proof.
    unfold any_hit, hit_of. induction act as [|a act IH]; cbn; [reflexivity|]. rewrite IH.
    destruct (grp_eqb (egrp e) (egrp a)); cbn; [reflexivity|]. destruct (fli (eseg a) (eseg e)); reflexivity.
  Qed.

  (* one iteration of the generated loop = one unfolding of the model loop (discard never raises: strict_remove = false) *)
  Lemma geq_sweep_body : forall fin evs e act,
    (forall s, fin s = false) ->
    (forall act', Ok (loop_ret (g_do_edges_intersect_body1 T fli) fin act' evs) = sweep_loop hit_of false evs (map ekey act')) ->
    Ok (match g_do_edges_intersect_body1 T fli act e with inl v => v | inr s' => loop_ret (g_do_edges_intersect_body1 T fli) fin s' evs end)
    = sweep_loop hit_of false (e :: evs) (map ekey act).
  Proof.
    intros fin evs e act Hfin IH. cbn [sweep_loop]. unfold g_do_edges_intersect_body1. cbv zeta. cbn [andb].
    destruct (negb (estart e)).
    - rewrite IH, set_discard_keys. reflexivity.
    - rewrite same_group_keys. destruct (same_group (ekey e) (map ekey act)).
      + rewrite IH, set_add_keys. reflexivity.
      + rewrite any_hit_keys. destruct (any_hit hit_of (ekey e) (map ekey act)); [reflexivity|].
        rewrite IH, set_add_keys. reflexivity.
  Qed.

  Lemma sweep_loop_eq fin : (forall s, fin s = false) -> forall evs act,
    Ok (loop_ret (g_do_edges_intersect_body1 T fli) fin act evs) = sweep_loop hit_of false evs (map ekey act).
  Proof.
    intros Hfin. induction evs as [|e evs IH]; intros act; [cbn; now rewrite Hfin|].
    cbn [loop_ret]. apply geq_sweep_body; assumption.
  Qed.

  Lemma map_pair_id {A B} (l : list (A * B)) : map (fun p_ => let '(x, y) := p_ in (x, y)) l = l.
  Proof. induction l as [|[a b] l IH]; cbn; [reflexivity|]. now rewrite IH. Qed.

  Lemma geq_do_edges_intersect : forall ea eb, Ok (g_do_edges_intersect T fli ea eb) = sweep hit_of ea eb.
  Proof.
    intros ea eb. unfold g_do_edges_intersect, sweep, sweep_gen. cbv zeta.
    rewrite !map_pair_id, !geq_create_events, geq_sort.
    rewrite (sweep_loop_eq (fun _ => false) (fun _ => eq_refl)). reflexivity.
  Qed.
End WithFli.

Lemma sweep_ext (h1 h2 : sg -> sg -> bool) : (forall a b, h1 a b = h2 a b) -> forall ea eb, sweep h1 ea eb = sweep h2 ea eb.
Proof.
  intros H ea eb. unfold sweep, sweep_gen. generalize (sort_events true (create_events GA ea ++ create_events GB eb)).
  generalize (@nil key). intros act evs. revert act.
  assert (Ha : forall k act, any_hit h1 k act = any_hit h2 k act).
  { intros k act. unfold any_hit. induction act as [|k' act IHa]; cbn; [reflexivity|]. now rewrite IHa, H. }
  induction evs as [|e evs IH]; intros act; cbn [sweep_loop]; [reflexivity|]. rewrite !IH, Ha. reflexivity.
Qed.

(* with the find_line_intersection generated in the same run: the sweep PairM.edges_cross runs *)
Lemma geq_do_edges_intersect_fli : forall ea eb,
  Ok (g_do_edges_intersect _ g_find_line_intersection ea eb) = sweep hit ea eb.
Proof.
  intros ea eb. rewrite geq_do_edges_intersect. apply sweep_ext. intros a b. unfold hit_of. apply geq_hit.
Qed.
