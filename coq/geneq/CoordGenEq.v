(* Translator tie for C08: Coordinate.__init__ / __eq__ / __hash__ regenerated from
   geostructures/coordinates.py equal the hand model CoordM.v, for ALL arguments.
   The two `while` loops: the generated loop CONDITION and loop BODY (step) equal the condition and
   the step the fuelled model loops iterate; hence the generic fuelled loop over the generated
   pair IS pole_loop / wrap_loop, and the whole generated constructor, run with the model's fuel
   policy, is CoordM.mk.  Compiled on every run against the fresh CoordGen.v. *)
From Coq Require Import QArith Qround Qabs.
From GV Require Import Prelude CoordM.
From GVgen Require Import CoordGen.
Open Scope Q_scope.

(* ---- first loop: `while not -90 <= lat <= 90` over the state (lon, lat) *)
Lemma geq_init_pole_cond : forall s, g_init_pole_cond s = negb (lat_ok (snd s)).
Proof. intros [lon lat]. reflexivity. Qed.

Lemma geq_init_pole_step : forall s, g_init_pole_step s = pole_step s.
Proof. intros [lon lat]. reflexivity. Qed.

(* ---- second loop: `while not -180 <= lon <= 180` over the state lon *)
Lemma geq_init_wrap_cond : forall lon, g_init_wrap_cond lon = negb (lon_ok lon).
Proof. intros lon. reflexivity. Qed.

Lemma geq_init_wrap_step : forall lon, g_init_wrap_step lon = wrap_step lon.
Proof. intros lon. reflexivity. Qed.

(* ---- the generic loop over the generated condition/step is the model's fuelled loop *)
Lemma geq_while_pole : forall n s, while_fuel g_init_pole_cond g_init_pole_step n s = pole_loop n s.
Proof.
  induction n as [|n IH]; intros s; cbn [while_fuel pole_loop];
    rewrite geq_init_pole_cond; destruct (lat_ok (snd s)); cbn [negb]; try reflexivity.
  rewrite geq_init_pole_step. apply IH.
Qed.

Lemma geq_while_wrap : forall n s, while_fuel g_init_wrap_cond g_init_wrap_step n s = wrap_loop n s.
Proof.
  induction n as [|n IH]; intros s; cbn [while_fuel wrap_loop];
    rewrite geq_init_wrap_cond; destruct (lon_ok s); cbn [negb]; try reflexivity.
  rewrite geq_init_wrap_step. apply IH.
Qed.

(* ---- the constructor: loops in this order under `_bounded`, then 180 -> -180, then the four
   fields (z and m stored as given).  The fuel policy is the model's (CoordP.norm_total proves it
   never runs out). *)
Lemma geq_init : forall lon lat z m bounded,
  g_init (fun s => fuel_pole (snd s)) fuel_wrap lon lat z m bounded = mk lon lat z m bounded.
Proof.
  intros. unfold g_init, mk, norm. destruct bounded.
  - rewrite geq_while_pole. cbn [snd].
    destruct (pole_loop (fuel_pole lat) (lon, lat)) as [[lon1 lat1]|e]; [|reflexivity].
    rewrite geq_while_wrap.
    destruct (wrap_loop (fuel_wrap lon1) lon1) as [lon2|e]; [|reflexivity].
    unfold canon180. destruct (Qeq_bool lon2 180); reflexivity.
  - unfold canon180. destruct (Qeq_bool lon 180); reflexivity.
Qed.

(* ---- __eq__ *)
Lemma geq_eq : forall a b, g_eq a b = ceqb a b.
Proof. intros. unfold g_eq, ceqb. rewrite andb_assoc. reflexivity. Qed.

(* `if not isinstance(other, Coordinate): return False` *)
Lemma geq_eq_other : forall a u, g_eq_other a u = false.
Proof. reflexivity. Qed.

(* ---- __hash__: the hashed tuple is (longitude, latitude, z); Python's hash of a number depends
   on its numeric value only, which the model key expresses by reducing to lowest terms *)
Definition key_of (t : Q * Q * option Q) : Q * Q * option Q :=
  let '(a, b, z) := t in (Qred a, Qred b, option_map Qred z).

Lemma geq_hash : forall c, key_of (g_hash c) = hkey c.
Proof. reflexivity. Qed.
