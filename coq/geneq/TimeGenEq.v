(* The translator tie for time.py: every definition regenerated from the working tree equals
   the hand model, for ALL arguments.  Compiled on every run against the fresh TimeGen.v. *)
From GV Require Import Prelude TimeM.
From GVgen Require Import TimeGen.
Open Scope Z_scope.

Ltac crush :=
  intros;
  repeat match goal with i : iv |- _ => destruct i end;
  cbv [g_is_instant g_init_dt g_init_delta g_contains_dt g_issubset g_issuperset g_contains_iv
       g_isdisjoint g_intersects g_intersects_dt g_intersection g_union g_eq g_hash res_some
       is_instant mk mk_delta contains_dt issubset issuperset contains_iv isdisjoint intersects
       intersects_dt intersection union iv_eqb hkey st en];
  repeat match goal with
  | |- context [if ?b then _ else _] => destruct b eqn:?
  end;
  try reflexivity; try (exfalso; lia); try (f_equal; lia).

Lemma geq_is_instant : forall i, g_is_instant i = is_instant i.            Proof. crush. Qed.
Lemma geq_init_dt : forall s e, g_init_dt s e = mk s e.                     Proof. crush. Qed.
Lemma geq_init_delta : forall s d, g_init_delta s d = mk_delta s d.         Proof. crush. Qed.
Lemma geq_contains_dt : forall i t, g_contains_dt i t = contains_dt i t.    Proof. crush. Qed.
Lemma geq_issubset : forall a b, g_issubset a b = issubset a b.             Proof. crush. Qed.
Lemma geq_issuperset : forall a b, g_issuperset a b = issuperset a b.       Proof. crush. Qed.
Lemma geq_contains_iv : forall a b, g_contains_iv a b = contains_iv a b.    Proof. crush. Qed.
Lemma geq_isdisjoint : forall a b, g_isdisjoint a b = isdisjoint a b.       Proof. crush. Qed.
Lemma geq_intersects : forall a b, g_intersects a b = intersects a b.       Proof. crush. Qed.
Lemma geq_intersects_dt : forall a t, g_intersects_dt a t = intersects_dt a t. Proof. crush. Qed.
Lemma geq_intersection : forall a b, g_intersection a b = intersection a b. Proof. crush. Qed.
Lemma geq_union : forall a b, g_union a b = union a b.                      Proof. crush. Qed.
Lemma geq_eq : forall a b, g_eq a b = iv_eqb a b.                           Proof. crush. Qed.
Lemma geq_hash : forall a, g_hash a = hkey a.                               Proof. crush. Qed.
