(* Translator tie for C16: the mutators and property getters regenerated from _base.py and the copy() methods
   regenerated from structures.py (StateGen.v) equal the model (StateM.v: step / read / copy) for ALL states,
   arguments and instantiations of the abstract geometry functions. *)
From Coq Require Import String.
From GV Require Import Prelude StateM.
From GV Require TimeM.
From GVgen Require Import StateGen.
Open Scope Z_scope.

Section Eq.
  Variables G B C A S J W JP : Type.
  Variable sanitize : xprops -> JP.
  Variable bounds_of : kind -> G -> B.
  Variable centroid_of : kind -> G -> C.
  Variable area_of : kind -> G -> list G -> A.
  Variable shapely_of : kind -> G -> list G -> S.
  Variable gj_of : kind -> G -> list G -> J.
  Variable wkt_of : kind -> G -> list G -> W.
  Variable poly_geom : kind -> G -> G.
  Variable poly_holes : kind -> G -> list G -> list G.
  Notation stT := (st G B C A S).
  Notation step' := (step G B C A S J W bounds_of centroid_of area_of shapely_of gj_of wkt_of poly_geom poly_holes).
  Notation read' := (read G B C A S J W bounds_of centroid_of area_of shapely_of gj_of wkt_of).

  (* ---------------------------------------------------------------- mutators = StateM.step *)
  Lemma geq_set_dt_none : forall (s : stT) u ip,
    g_set_dt_none G B C A S J W s u ip = step' s (SetDt None ip).
  Proof. intros. destruct ip; reflexivity. Qed.

  Lemma geq_set_dt_interval : forall (s : stT) a b ip,
    g_set_dt_interval G B C A S J W s (a, b) ip = step' s (SetDt (Some (a, b)) ip).
  Proof. intros. destruct ip; reflexivity. Qed.

  Lemma geq_set_dt_datetime : forall (s : stT) d ip,
    g_set_dt_datetime G B C A S J W s d ip = step' s (SetDt (Some (d, d)) ip).
  Proof. intros. destruct ip; reflexivity. Qed.

  Lemma geq_buffer_dt : forall (s : stT) delta ip,
    g_buffer_dt G B C A S J W s delta ip = step' s (BufferDt delta ip).
  Proof.
    intros. unfold g_buffer_dt, step, get_dt. destruct (dt G B C A S s) as [[a b]|]; [|reflexivity].
    cbn [fst snd]. unfold mk_iv, TimeM.mk. destruct (b + delta <? a - delta); destruct ip; reflexivity.
  Qed.

  Lemma geq_strip_dt : forall (s : stT) ip, g_strip_dt G B C A S J W s ip = step' s (StripDt ip).
  Proof. intros. destruct ip; reflexivity. Qed.

  Lemma geq_set_property : forall (s : stT) k v ip,
    g_set_property G B C A S J W s k v ip = step' s (SetProp k v ip).
  Proof. intros. destruct ip; reflexivity. Qed.

  (* ---------------------------------------------------------------- getters *)
  Lemma geq_start : forall s : stT,
    g_start G B C A S s = match dt G B C A S s with Some d => Ok (fst d) | None => Err ValueError end.
  Proof. intros. unfold g_start, get_dt. destruct (dt G B C A S s); reflexivity. Qed.

  Lemma geq_end : forall s : stT,
    g_end G B C A S s = match dt G B C A S s with Some d => Ok (snd d) | None => Err ValueError end.
  Proof. intros. unfold g_end, get_dt. destruct (dt G B C A S s); reflexivity. Qed.

  (* the dict returned by `properties`, seen from the model's observation OProps p d *)
  Definition xview (p : pdict) (d : dtv) : xprops :=
    (p, match d with
        | Some (a, b) => [("datetime_start"%string, a); ("datetime_end"%string, b)]
        | None => []
        end).

  (* `properties` never raises, leaves the receiver as it is, and is the function of (_properties, dt) that the
     model's read reports *)
  Lemma geq_properties : forall s : stT, exists p d,
    read' s RProps = (s, Ok (RNoShape G B C A S, OProps B C A S J W p d)) /\
    g_properties G B C A S s = Ok (xview p d).
  Proof.
    intros. exists (props G B C A S s), (dt G B C A S s). split; [reflexivity|].
    unfold g_properties, g_start, g_end, get_dt, get_props. destruct (dt G B C A S s) as [[a b]|]; reflexivity.
  Qed.

  Lemma geq_properties_json : forall s : stT, exists p d,
    read' s RProps = (s, Ok (RNoShape G B C A S, OProps B C A S J W p d)) /\
    g_properties_json G B C A S JP sanitize s = Ok (sanitize (xview p d)).
  Proof.
    intros. destruct (geq_properties s) as (p & d & H1 & H2). exists p, d. split; [exact H1|].
    unfold g_properties_json. rewrite H2. reflexivity.
  Qed.

  (* ---------------------------------------------------------------- copy() of each single shape = StateM.copy *)
  Ltac copy_crush := intros s H; destruct s as [k g hs [d|] p cb cc ca cs]; cbn in H; subst k; reflexivity.

  Lemma geq_copy_GeoPolygon : forall s : stT, kd G B C A S s = KPolygon -> g_copy_GeoPolygon G B C A S s = copy G B C A S s.
  Proof. copy_crush. Qed.
  Lemma geq_copy_GeoBox : forall s : stT, kd G B C A S s = KBox -> g_copy_GeoBox G B C A S s = copy G B C A S s.
  Proof. copy_crush. Qed.
  Lemma geq_copy_GeoCircle : forall s : stT, kd G B C A S s = KCircle -> g_copy_GeoCircle G B C A S s = copy G B C A S s.
  Proof. copy_crush. Qed.
  Lemma geq_copy_GeoEllipse : forall s : stT, kd G B C A S s = KEllipse -> g_copy_GeoEllipse G B C A S s = copy G B C A S s.
  Proof. copy_crush. Qed.
  (* a GeoRing is a ring or a wedge *)
  Lemma geq_copy_GeoRing : forall s : stT, g_copy_GeoRing G B C A S s = copy G B C A S s.
  Proof. intros s; destruct s as [k g hs [d|] p cb cc ca cs]; reflexivity. Qed.
  Lemma geq_copy_GeoLineString : forall s : stT, kd G B C A S s = KLine -> g_copy_GeoLineString G B C A S s = copy G B C A S s.
  Proof. copy_crush. Qed.
  Lemma geq_copy_GeoPoint : forall s : stT, kd G B C A S s = KPoint -> g_copy_GeoPoint G B C A S s = copy G B C A S s.
  Proof. copy_crush. Qed.
End Eq.
