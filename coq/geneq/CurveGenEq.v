(* The translator tie for structures.py (curved shapes): the membership tests and the ellipse
   radius regenerated from the working tree equal the hand model of CurveM.v for ALL arguments.
   Compiled on every run against the fresh CurveGen.v. *)
From GV Require Import Prelude SphereM CurveM.
From Coq Require Import Reals.
From GVgen Require Import CurveGen.
Open Scope R_scope.

Lemma geq_radius_at_angle : forall e a, g_radius_at_angle e a = radius_at e a.
Proof. intros. reflexivity. Qed.

Lemma geq_circle_contains : forall s p, g_circle_contains s p = circle_contains s p.
Proof. intros. reflexivity. Qed.

Lemma geq_ellipse_contains : forall s p, g_ellipse_contains s p = ellipse_contains s p.
Proof. intros. reflexivity. Qed.

Lemma geq_ring_contains : forall s p, g_ring_contains s p = ring_contains s p.
Proof.
  intros. unfold g_ring_contains, ring_contains. cbv zeta.
  destruct (rltb (r_amax s - r_amin s) 360); cbn [andb]; [|reflexivity].
  destruct (negb _); reflexivity.
Qed.
